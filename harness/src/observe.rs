//! The trace-event vocabulary: `observe(op, args)` calls the real ckc-rs API and returns what it
//! observed as JSON.  Words are `[hi, lo]`, u64 values four 16-bit limbs (most significant first),
//! strings arrays of code points; a call that unwinds is recorded as -1 / "panic".
//!
//! Used in three places: trace recording (direction B: the line is `args + observations`, which
//! TLC then validates against spec/CkcTrace.tla), violation replay files (re-observe and compare
//! with the expected fields), and nowhere else.

use crate::hands::*;
use crate::util::*;
use ckc_rs::cards::binary_card::{BinaryCard, BC64};
use ckc_rs::cards::five::Five;
use ckc_rs::cards::four::Four;
use ckc_rs::cards::seven::Seven;
use ckc_rs::cards::six::Six;
use ckc_rs::cards::two::Two;
use ckc_rs::cards::HandRanker;
use ckc_rs::deck::{Deck, POKER_DECK};
use ckc_rs::hand_rank::{HandRank, HandRankClass, HandRankName};
use ckc_rs::{CKCNumber, CardNumber, CardRank, CardSuit, PokerCard, Shifty};
use serde_json::{json, Map, Value};
use std::cmp::Ordering;

pub fn rank_enum(name: &str) -> CardRank {
    match name {
        "ACE" => CardRank::ACE,
        "KING" => CardRank::KING,
        "QUEEN" => CardRank::QUEEN,
        "JACK" => CardRank::JACK,
        "TEN" => CardRank::TEN,
        "NINE" => CardRank::NINE,
        "EIGHT" => CardRank::EIGHT,
        "SEVEN" => CardRank::SEVEN,
        "SIX" => CardRank::SIX,
        "FIVE" => CardRank::FIVE,
        "FOUR" => CardRank::FOUR,
        "THREE" => CardRank::THREE,
        "TWO" => CardRank::TWO,
        "BLANK" => CardRank::BLANK,
        x => panic!("harness: unknown rank name {}", x),
    }
}
pub fn suit_enum(name: &str) -> CardSuit {
    match name {
        "SPADES" => CardSuit::SPADES,
        "HEARTS" => CardSuit::HEARTS,
        "DIAMONDS" => CardSuit::DIAMONDS,
        "CLUBS" => CardSuit::CLUBS,
        "BLANK" => CardSuit::BLANK,
        x => panic!("harness: unknown suit name {}", x),
    }
}
pub const RANK_NAMES: [&str; 14] = [
    "ACE", "KING", "QUEEN", "JACK", "TEN", "NINE", "EIGHT", "SEVEN", "SIX", "FIVE", "FOUR", "THREE", "TWO", "BLANK",
];
pub const SUIT_NAMES: [&str; 5] = ["SPADES", "HEARTS", "DIAMONDS", "CLUBS", "BLANK"];

fn ord(o: Ordering) -> &'static str {
    match o {
        Ordering::Less => "Less",
        Ordering::Equal => "Equal",
        Ordering::Greater => "Greater",
    }
}
fn words_of(v: &Value) -> Vec<u32> {
    v.as_array().expect("array of words").iter().map(from_hilo).collect()
}
fn u64_of(v: &Value) -> u64 {
    let a = v.as_array().expect("limbs");
    (a[0].as_u64().unwrap() << 48) | (a[1].as_u64().unwrap() << 32) | (a[2].as_u64().unwrap() << 16) | a[3].as_u64().unwrap()
}
fn string_of(v: &Value) -> String {
    v.as_array().expect("code points").iter().map(|c| char::from_u32(c.as_u64().unwrap() as u32).unwrap()).collect()
}
pub fn cps(s: &str) -> Value {
    Value::Array(s.chars().map(|c| json!(c as u32)).collect())
}
fn ival<T: Into<i64>>(r: Result<T, String>) -> Value {
    match r {
        Ok(v) => json!(v.into()),
        Err(_) => json!(-1),
    }
}

/// name / class / self-consistency of the rank returned by hand_rank_validated()
fn validated_fields(h: &Hand, m: &mut Map<String, Value>) {
    match guarded(|| hand_rank_validated(h)) {
        Ok(hr) => {
            m.insert("name_validated".into(), json!(format!("{:?}", hr.name)));
            m.insert("class_validated".into(), json!(format!("{:?}", hr.class)));
            m.insert("consistent_validated".into(), json!(hr.is_a_valid_hand_rank()));
        }
        Err(_) => {
            m.insert("name_validated".into(), json!("panic"));
            m.insert("class_validated".into(), json!("panic"));
            m.insert("consistent_validated".into(), json!(false));
        }
    }
}

/// All the five-slot ranking observables of one array of five words.
pub fn observe_rank5(w: &[u32]) -> Map<String, Value> {
    let arr = [w[0], w[1], w[2], w[3], w[4]];
    let five = Five::from(arr);
    let mut m = Map::new();
    m.insert("or_bits".into(), hilo(five.or_bits()));
    m.insert("or_rank_bits".into(), json!(five.or_rank_bits()));
    m.insert("and_bits".into(), hilo(five.and_bits()));
    m.insert("flush".into(), json!(five.is_flush()));
    m.insert("straight".into(), json!(five.is_straight()));
    m.insert("straight_flush".into(), json!(five.is_straight_flush()));
    m.insert("wheel".into(), json!(five.is_wheel()));
    #[allow(deprecated)]
    {
        m.insert("dep_flush".into(), json!(ckc_rs::evaluate::is_flush(arr)));
        m.insert("dep_or".into(), json!(ckc_rs::evaluate::or_rank_bits(arr) as u64));
    }
    let product = guarded(|| five.multiply_primes());
    match &product {
        Ok(p) => {
            m.insert("product".into(), json!(*p as u64));
            m.insert("idx".into(), ival(guarded(|| Five::find_in_products(*p) as i64)));
        }
        Err(_) => {
            m.insert("product".into(), json!(-1));
            m.insert("idx".into(), json!(-1));
        }
    }
    let h = Hand::H5(five);
    m.insert("v_value".into(), ival(guarded(|| rank_value(&h) as i64)));
    m.insert("v_rank".into(), ival(guarded(|| hand_rank(&h).value as i64)));
    m.insert("v_validated".into(), ival(guarded(|| rank_value_validated(&h) as i64)));
    m.insert("v_rank_validated".into(), ival(guarded(|| hand_rank_validated(&h).value as i64)));
    m.insert("v_free".into(), ival(guarded(|| ckc_rs::evaluate::five_cards(arr) as i64)));
    validated_fields(&h, &mut m);
    match guarded(|| (rank_value_and_hand(&h), hand_rank(&h))) {
        Ok((r, hr)) => {
            m.insert("value".into(), json!(r.value));
            m.insert("witness".into(), hilo_arr(&r.witness));
            m.insert("name".into(), json!(format!("{:?}", hr.name)));
            m.insert("class".into(), json!(format!("{:?}", hr.class)));
            m.insert("rank_consistent".into(), json!(hr.is_a_valid_hand_rank() && hr == HandRank::from(hr.value)));
        }
        Err(_) => {
            m.insert("value".into(), json!(-1));
            m.insert("witness".into(), json!([]));
            m.insert("name".into(), json!("panic"));
            m.insert("class".into(), json!("panic"));
        }
    }
    m
}

pub fn observe_rankn(w: &[u32]) -> Map<String, Value> {
    let h = Hand::from_words(w);
    let mut m = Map::new();
    m.insert("v_value".into(), ival(guarded(|| rank_value(&h) as i64)));
    m.insert("v_rank".into(), ival(guarded(|| hand_rank(&h).value as i64)));
    m.insert("v_validated".into(), ival(guarded(|| rank_value_validated(&h) as i64)));
    m.insert("v_rank_validated".into(), ival(guarded(|| hand_rank_validated(&h).value as i64)));
    m.insert("valid".into(), json!(h.is_valid()));
    validated_fields(&h, &mut m);
    match guarded(|| (rank_value_and_hand(&h), hand_rank(&h))) {
        Ok((r, hr)) => {
            m.insert("value".into(), json!(r.value));
            m.insert("witness".into(), hilo_arr(&r.witness));
            m.insert("name".into(), json!(format!("{:?}", hr.name)));
            m.insert("class".into(), json!(format!("{:?}", hr.class)));
            m.insert("rank_consistent".into(), json!(hr.is_a_valid_hand_rank() && hr == HandRank::from(hr.value)));
            // structural part of C03 that needs no oracle: five input words, strictly
            // descending, re-ranking to the reported value
            let wi = r.witness;
            let structural = wi.iter().all(|x| w.contains(x))
                && wi.windows(2).all(|p| p[0] > p[1])
                && guarded(|| Five::from(wi).hand_rank_value()) == Ok(r.value);
            m.insert("witness_ok".into(), json!(structural));
        }
        Err(_) => {
            m.insert("value".into(), json!(-1));
            m.insert("witness".into(), json!([]));
            m.insert("name".into(), json!("panic"));
            m.insert("class".into(), json!("panic"));
            m.insert("witness_ok".into(), json!(false));
        }
    }
    m
}

/// Observe one event.  `args` holds the argument fields; the result is the full event
/// (arguments and observations), ready to be written as one NDJSON line.
pub fn observe(args: &Value) -> Value {
    // a call that unwinds outside the individually guarded sites is still data: the event then
    // carries "panic" and lacks the fields the specification expects
    match guarded(|| observe_inner(args)) {
        Ok(v) => v,
        Err(msg) => {
            let mut ev: Map<String, Value> = args.as_object().unwrap().clone();
            ev.insert("panic".to_string(), json!(msg));
            Value::Object(ev)
        }
    }
}

fn observe_inner(args: &Value) -> Value {
    let op = args["op"].as_str().expect("event has op");
    let mut ev: Map<String, Value> = args.as_object().unwrap().clone();
    macro_rules! put {
        ($k:expr, $v:expr) => {
            ev.insert($k.to_string(), $v);
        };
    }
    match op {
        "create" => {
            let r = rank_enum(args["rank"].as_str().unwrap());
            let s = suit_enum(args["suit"].as_str().unwrap());
            put!("res", hilo(CKCNumber::create(r, s)));
            put!("sig", json!(s.binary_signature()));
        }
        "filter" => {
            let w = from_hilo(&args["w"]);
            put!("res", hilo(CardNumber::filter(w)));
            put!("res2", hilo(<CKCNumber as PokerCard>::filter(w)));
        }
        "acc" => {
            let w = from_hilo(&args["w"]);
            put!("rank", json!(format!("{:?}", w.get_card_rank())));
            put!("suit", json!(format!("{:?}", w.get_card_suit())));
            put!("prime", json!(w.get_rank_prime()));
            put!("rank_bit", json!(w.get_rank_bit()));
            put!("rank_flag", hilo(w.get_rank_flag()));
            put!("suit_bit", json!(w.get_suit_bit()));
            put!("suit_flag", json!(w.get_suit_flag()));
            put!("rank_char", json!(w.get_rank_char() as u32));
            put!("suit_char", json!(w.get_suit_char() as u32));
            put!("suit_letter", json!(w.get_suit_letter() as u32));
            put!("blank", json!(w.is_blank()));
            put!("chen2", json!((w.get_chen_points() * 2.0) as i64));
            put!("chen_exact", json!((w.get_chen_points() * 2.0).fract() == 0.0));
        }
        "flag" => {
            let w = from_hilo(&args["w"]);
            let mut x = w;
            for m in args["marks"].as_array().unwrap() {
                x = match m.as_str().unwrap() {
                    "pair" => x.flag_as_pair(),
                    "trips" => x.flag_as_trips(),
                    "quads" => x.flag_as_quads(),
                    o => panic!("harness: unknown mark {}", o),
                };
            }
            put!("res", hilo(x));
            put!("stripped", hilo(x.strip_multiples_flags()));
            // C20: the rank, suit, prime and characters of the marked word read the same as those of the word
            // itself (code against code; what they are for a card is C10's statement)
            let reads = |v: u32| (format!("{:?}", v.get_card_rank()), format!("{:?}", v.get_card_suit()), v.get_rank_prime(), v.get_rank_bit(), v.get_rank_flag(),
                                  v.get_suit_bit(), v.get_suit_flag(), v.get_rank_char(), v.get_suit_char(), v.get_suit_letter());
            put!("same_reads", json!(reads(x) == reads(w)));
        }
        "shift_word" => {
            let w = from_hilo(&args["w"]);
            put!("next_suit", json!(format!("{:?}", w.next_suit())));
            put!("res", hilo(w.shift_suit()));
        }
        "deck_get" => {
            let i = u64_of(&args["index"]);
            put!("res", hilo(Deck::get(i as usize)));
            put!("len", json!(Deck::len()));
        }
        "deck" => {
            put!("words", hilo_arr(&POKER_DECK.arr()));
            put!("bits", Value::Array(<BinaryCard as BC64>::DECK.iter().map(|b| limbs(*b)).collect()));
        }
        "table" => {
            let name = args["name"].as_str().unwrap();
            let rows: Vec<Vec<u8>> = match name {
                "omaha" => Four::OMAHA_PERMUTATIONS.iter().map(|r| r.to_vec()).collect(),
                "six" => Six::FIVE_CARD_PERMUTATIONS.iter().map(|r| r.to_vec()).collect(),
                "seven" => Seven::FIVE_CARD_PERMUTATIONS.iter().map(|r| r.to_vec()).collect(),
                o => panic!("harness: unknown table {}", o),
            };
            put!("rows", json!(rows));
        }
        "preset" => {
            let name = args["name"].as_str().unwrap();
            let t: Vec<Two> = match name {
                "AA" => Two::AA.to_vec(),
                "AK" => Two::AK.to_vec(),
                "AKs" => Two::AKs.to_vec(),
                "AKo" => Two::AKo.to_vec(),
                "AQs" => Two::AQs.to_vec(),
                "AQo" => Two::AQo.to_vec(),
                o => panic!("harness: unknown preset {}", o),
            };
            put!("pairs", Value::Array(t.iter().map(|p| hilo_arr(&p.to_arr())).collect()));
            let mut sorted: Vec<[u32; 2]> = t.iter().map(|p| p.to_arr()).collect();
            sorted.sort_unstable();
            put!("pairs_as_set", Value::Array(sorted.iter().map(|p| hilo_arr(p)).collect()));
        }
        // ---- containers: `pre` is the state before, reconstructed through From ----
        "c_from" | "c_parts" => {
            let w = words_of(&args["words"]);
            let h = if op == "c_from" { Hand::from_words(&w) } else { Hand::from_parts(&w) };
            put!("post", hilo_arr(&h.to_arr()));
            put!("acc", hilo_arr(&h.accessors()));
            put!("iter", hilo_arr(&h.iter_vec()));
        }
        "c_default" => {
            let h = Hand::default_of(args["n"].as_u64().unwrap() as usize);
            put!("post", hilo_arr(&h.to_arr()));
        }
        "c_set" => {
            let mut h = Hand::from_words(&words_of(&args["pre"]));
            h.set(args["slot"].as_u64().unwrap() as usize, from_hilo(&args["w"]));
            put!("post", hilo_arr(&h.to_arr()));
            put!("acc", hilo_arr(&h.accessors()));
            put!("iter", hilo_arr(&h.iter_vec()));
        }
        "select5" => {
            let h = Hand::from_words(&words_of(&args["pre"]));
            let p: Vec<u8> = args["perm"].as_array().unwrap().iter().map(|x| x.as_u64().unwrap() as u8).collect();
            let f = h.five_from_permutation([p[0], p[1], p[2], p[3], p[4]]).unwrap();
            put!("res", hilo_arr(&f.to_arr()));
        }
        "sort" => {
            let h = Hand::from_words(&words_of(&args["pre"]));
            put!("copy", hilo_arr(&h.sort().to_arr()));
            let mut g = h;
            g.sort_in_place();
            put!("inplace", hilo_arr(&g.to_arr()));
            put!("again", hilo_arr(&g.sort().to_arr()));
        }
        "shift_hand" => {
            let h = Hand::from_words(&words_of(&args["pre"]));
            put!("res", hilo_arr(&h.shift_suit().to_arr()));
        }
        "shift_value" => {
            // a hand of five to seven cards, the hand shifted, and the values of both (C08)
            let h = Hand::from_words(&words_of(&args["pre"]));
            let sh = h.shift_suit();
            put!("res", hilo_arr(&sh.to_arr()));
            put!("v_pre", ival(guarded(|| rank_value(&h) as i64)));
            put!("v_post", ival(guarded(|| rank_value(&sh) as i64)));
            put!("vv_pre", ival(guarded(|| rank_value_validated(&h) as i64)));
            put!("vv_post", ival(guarded(|| rank_value_validated(&sh) as i64)));
        }
        "valid" => {
            let h = Hand::from_words(&words_of(&args["words"]));
            put!("unique", json!(h.are_unique()));
            put!("has_blank", json!(h.contain_blank()));
            put!("corrupt", json!(h.is_corrupt()));
            put!("valid", json!(h.is_valid()));
            if h.len() >= 5 {
                put!("v_validated", ival(guarded(|| rank_value_validated(&h) as i64)));
                put!("v_rank_validated", ival(guarded(|| hand_rank_validated(&h).value as i64)));
                validated_fields(&h, &mut ev);
                if h.len() == 5 {
                    let w = h.to_arr();
                    put!("v_free", ival(guarded(|| ckc_rs::evaluate::five_cards([w[0], w[1], w[2], w[3], w[4]]) as i64)));
                }
                if h.is_valid() {
                    put!("v_value", ival(guarded(|| rank_value(&h) as i64)));
                }
            }
        }
        "rank5" => {
            for (k, v) in observe_rank5(&words_of(&args["words"])) {
                ev.insert(k, v);
            }
        }
        "rankn" => {
            for (k, v) in observe_rankn(&words_of(&args["words"])) {
                ev.insert(k, v);
            }
        }
        "find" => {
            let k = u64_of(&args["key"]);
            put!("res", ival(guarded(|| Five::find_in_products(k as usize) as i64)));
        }
        "deal" => {
            let w = words_of(&args["words"]);
            put!("v5", ival(guarded(|| rank_value(&Hand::from_words(&w[0..5])) as i64)));
            put!("v6", ival(guarded(|| rank_value(&Hand::from_words(&w[0..6])) as i64)));
            put!("v7", ival(guarded(|| rank_value(&Hand::from_words(&w[0..7])) as i64)));
        }
        "hr_from" => {
            let v = args["v"].as_u64().unwrap() as u16;
            let hr = HandRank::from(v);
            put!("value", json!(hr.value));
            put!("name", json!(format!("{:?}", hr.name)));
            put!("class", json!(format!("{:?}", hr.class)));
            put!("dname", json!(format!("{:?}", HandRank::determine_name(&v))));
            put!("dclass", json!(format!("{:?}", HandRank::determine_class(&v))));
            put!("invalid", json!(hr.is_invalid()));
            put!("consistent", json!(hr.is_a_valid_hand_rank()));
            put!("is_default", json!(hr == HandRank::default()));
        }
        "cmp" => {
            let a = HandRank::from(args["a"].as_u64().unwrap() as u16);
            let b = HandRank::from(args["b"].as_u64().unwrap() as u16);
            put!("cmp", json!(ord(a.cmp(&b))));
            put!("partial", json!(a.partial_cmp(&b).map(ord).unwrap_or("None")));
            put!("lt", json!(a < b));
            put!("le", json!(a <= b));
            put!("gt", json!(a > b));
            put!("ge", json!(a >= b));
            put!("eq", json!(a == b));
            // pairwise laws of C07 that need no oracle (1..=7462 are the real values, by the statement)
            let (va, vb) = (a.value, b.value);
            let real = |v: u16| (1..=7462).contains(&v);
            let c = a.cmp(&b);
            let anchor = if real(va) && real(vb) { c == vb.cmp(&va) } else if !real(va) && real(vb) { c == Ordering::Less }
                         else if real(va) && !real(vb) { c == Ordering::Greater } else { (c == Ordering::Equal) == (va == vb) };
            let lawful = c == b.cmp(&a).reverse() && (c == Ordering::Equal) == (a == b) && a.partial_cmp(&b) == Some(c)
                && (a < b) == (c == Ordering::Less) && (a <= b) == (c != Ordering::Greater)
                && (a > b) == (c == Ordering::Greater) && (a >= b) == (c != Ordering::Less) && anchor;
            put!("lawful", json!(lawful));
        }
        "enum_cmp" => {
            let a = args["a"].as_u64().unwrap() as u16;
            let b = args["b"].as_u64().unwrap() as u16;
            let (na, nb): (HandRankName, HandRankName) = (HandRank::determine_name(&a), HandRank::determine_name(&b));
            let (ca, cb): (HandRankClass, HandRankClass) = (HandRank::determine_class(&a), HandRank::determine_class(&b));
            put!("name_cmp", json!(ord(na.cmp(&nb))));
            put!("class_cmp", json!(ord(ca.cmp(&cb))));
        }
        "chen" => {
            let a = from_hilo(&args["a"]);
            let b = from_hilo(&args["b"]);
            let t = Two::new(a, b);
            put!("score", ival(guarded(|| t.chen_formula() as i64)));
            put!("gap", ival(guarded(|| t.get_gap() as i64)));
            put!("pair", json!(t.is_pocket_pair()));
            put!("suited", json!(t.is_suited()));
            put!("connector", json!(guarded(|| t.is_connector()).unwrap_or(false)));
            put!("suited_connector", json!(guarded(|| t.is_suited_connector()).unwrap_or(false)));
            put!("high", hilo(t.high_card()));
        }
        "rank_sym" => {
            let c = char::from_u32(args["cp"].as_u64().unwrap() as u32).unwrap();
            put!("res", json!(format!("{:?}", CardRank::from_char(c))));
        }
        "suit_sym" => {
            let c = char::from_u32(args["cp"].as_u64().unwrap() as u32).unwrap();
            put!("res", json!(format!("{:?}", CardSuit::from_char(c))));
        }
        "parse_card" => {
            let s = string_of(&args["s"]);
            match guarded(|| (CKCNumber::from_index(&s), ckc_rs::parse::get_rank_and_suit(&s))) {
                Ok((w, (r, su))) => {
                    put!("ok", json!(true));
                    put!("res", hilo(w));
                    put!("rank", json!(format!("{:?}", r)));
                    put!("suit", json!(format!("{:?}", su)));
                }
                Err(_) => {
                    put!("ok", json!(false));
                    put!("res", hilo(0));
                    put!("rank", json!("panic"));
                    put!("suit", json!("panic"));
                }
            }
        }
        "parse_hand" => {
            // kind: "ok" | "InvalidIndex" (or another HandError name) | "panic"; res is [] unless ok
            let s = string_of(&args["s"]);
            let n = args["n"].as_u64().unwrap() as usize;
            match guarded(|| Hand::parse(n, &s)) {
                Ok(Ok(h)) => {
                    put!("kind", json!("ok"));
                    put!("res", hilo_arr(&h.to_arr()));
                }
                Ok(Err(e)) => {
                    put!("kind", json!(e));
                    put!("res", json!([]));
                }
                Err(_) => {
                    put!("kind", json!("panic"));
                    put!("res", json!([]));
                }
            }
            if n == 5 {
                match guarded(|| ckc_rs::parse::five_from_index(&s)) {
                    Ok(Some(a)) => {
                        put!("free_kind", json!("ok"));
                        put!("free", hilo_arr(&a));
                    }
                    Ok(None) => {
                        put!("free_kind", json!("None"));
                        put!("free", json!([]));
                    }
                    Err(_) => {
                        put!("free_kind", json!("panic"));
                        put!("free", json!([]));
                    }
                }
            }
        }
        "parse_set" => {
            let s = string_of(&args["s"]);
            match guarded(|| BinaryCard::from_index(&s)) {
                Ok(b) => {
                    put!("ok", json!(true));
                    put!("res", limbs(b));
                }
                Err(_) => {
                    put!("ok", json!(false));
                    put!("res", limbs(0));
                }
            }
        }
        "bc_from_ckc" => {
            put!("res", limbs(BinaryCard::from_ckc(from_hilo(&args["w"]))));
        }
        "ckc_from_bc" => {
            put!("res", hilo(CKCNumber::from_binary_card(u64_of(&args["bc"]))));
        }
        "bc_from_hand" => {
            let h = Hand::from_words(&words_of(&args["words"]));
            put!("res", limbs(h.to_binary()));
        }
        "bc_fold" => {
            put!("res", limbs(u64_of(&args["pre"]).fold_in(u64_of(&args["arg"]))));
        }
        "bc_has" => {
            put!("res", json!(u64_of(&args["pre"]).has(u64_of(&args["arg"]))));
        }
        "bc_info" => {
            let b = u64_of(&args["pre"]);
            put!("count", json!(b.number_of_cards()));
            put!("valid", json!(BC64::is_valid(&b)));
            put!("single", json!(b.is_single_card()));
        }
        "bc_peel" => {
            let mut b = u64_of(&args["pre"]);
            let c = b.peel();
            put!("res", limbs(c));
            put!("post", limbs(b));
        }
        "two_from_bc" => {
            // kind: "ok" | the HandError name | "panic"; res is [] and back is 0 unless ok
            let b = u64_of(&args["bc"]);
            match guarded(|| Two::try_from(b)) {
                Ok(Ok(t)) => {
                    put!("kind", json!("ok"));
                    put!("res", hilo_arr(&t.to_arr()));
                    put!("back", limbs(BinaryCard::from_two(t)));
                }
                Ok(Err(e)) => {
                    put!("kind", json!(format!("{:?}", e)));
                    put!("res", json!([]));
                    put!("back", limbs(0));
                }
                Err(_) => {
                    put!("kind", json!("panic"));
                    put!("res", json!([]));
                    put!("back", limbs(0));
                }
            }
        }
        // ---- advisory extensions: behaviour no listed property speaks about ----
        "adv_serde" => {
            let w = words_of(&args["words"]);
            let text = |h: &Hand| -> Option<String> {
                match h {
                    Hand::H2(x) => serde_json::to_string(x).ok(),
                    Hand::H4(x) => serde_json::to_string(x).ok(),
                    Hand::H5(x) => serde_json::to_string(x).ok(),
                    Hand::H6(x) => serde_json::to_string(x).ok(),
                    Hand::H7(x) => serde_json::to_string(x).ok(),
                    Hand::H3(_) => None,
                }
            };
            let h = Hand::from_words(&w);
            let t = text(&h).unwrap_or_default();
            let back: Vec<u32> = serde_json::from_str::<Vec<u32>>(&t).unwrap_or_default();
            let again = match w.len() {
                2 => serde_json::from_str::<Two>(&t).map(|x| x.to_arr().to_vec()).unwrap_or_default(),
                4 => serde_json::from_str::<Four>(&t).map(|x| x.to_arr().to_vec()).unwrap_or_default(),
                5 => serde_json::from_str::<Five>(&t).map(|x| x.to_arr().to_vec()).unwrap_or_default(),
                6 => serde_json::from_str::<Six>(&t).map(|x| x.to_arr().to_vec()).unwrap_or_default(),
                7 => serde_json::from_str::<Seven>(&t).map(|x| x.to_arr().to_vec()).unwrap_or_default(),
                _ => vec![],
            };
            put!("as_numbers", hilo_arr(&back));
            put!("back", hilo_arr(&again));
        }
        "adv_cmp" => {
            let a = Hand::from_words(&words_of(&args["a"]));
            let b = Hand::from_words(&words_of(&args["b"]));
            let c = match (&a, &b) {
                (Hand::H2(x), Hand::H2(y)) => x.cmp(y),
                (Hand::H3(x), Hand::H3(y)) => x.cmp(y),
                (Hand::H4(x), Hand::H4(y)) => x.cmp(y),
                (Hand::H5(x), Hand::H5(y)) => x.cmp(y),
                (Hand::H6(x), Hand::H6(y)) => x.cmp(y),
                (Hand::H7(x), Hand::H7(y)) => x.cmp(y),
                _ => panic!("harness: adv_cmp needs equal sizes"),
            };
            put!("cmp", json!(ord(c)));
            put!("eq", json!(a.to_arr() == b.to_arr()));
        }
        "adv_hr" => {
            let v = args["v"].as_u64().unwrap() as u16;
            let hr = HandRank::from(v);
            let t = serde_json::to_string(&hr).unwrap_or_default();
            let back: Option<HandRank> = serde_json::from_str(&t).ok();
            put!("round_trip", json!(back == Some(hr)));
            put!("display_is_debug", json!(format!("{}", hr) == format!("{:?}", hr)));
            put!("text", cps(&t));
        }
        "adv_consts" => {
            put!("possible_combinations", json!(Five::POSSIBLE_COMBINATIONS));
            put!("possible_combinations_free", json!(ckc_rs::evaluate::POSSIBLE_COMBINATIONS));
            put!("straight_padding", json!(Five::STRAIGHT_PADDING));
            put!("wheel_or_bits", json!(Five::WHEEL_OR_BITS));
            put!("no_hand_rank_value", json!(ckc_rs::hand_rank::NO_HAND_RANK_VALUE));
            put!("deck_size", json!(ckc_rs::deck::DECK_SIZE));
            put!("rank_flag_filter", hilo(CardNumber::RANK_FLAG_FILTER));
            put!("suit_filter", hilo(CardNumber::SUIT_FILTER));
            put!("multiples_filter", hilo(CardNumber::MULTIPLES_FILTER));
            put!("pair", hilo(CardNumber::PAIR));
            put!("trips", hilo(CardNumber::TRIPS));
            put!("quads", hilo(CardNumber::QUADS));
        }
        "session" => {
            let steps = args["steps"].as_array().cloned().unwrap_or_default();
            match crate::session::replay_behaviour(&steps) {
                None => {
                    put!("ok", json!(true));
                }
                Some((k, op, detail, _owners)) => {
                    put!("ok", json!(false));
                    put!("fail_step", json!(k));
                    put!("fail_op", json!(op));
                    put!("detail", detail);
                }
            }
        }
        "reset" => {}
        o => panic!("harness: unknown op {}", o),
    }
    Value::Object(ev)
}
