//! The oracle: tables TLC generated from the specification (spec/Gen.tla).
//! Everything "expected" in this crate is a look-up in here.

use crate::util::{choose, colex_rank, from_hilo};
use serde_json::Value;
use std::collections::HashMap;
use std::fs;

#[derive(Clone, Debug)]
pub struct Card {
    pub i: usize,
    pub rank: usize,
    pub suit: usize,
    pub w: u32,
    pub bit: u32,
    pub rank_name: String,
    pub suit_name: String,
    pub prime: u32,
    pub rank_bit: u32,
    pub suit_bit: u32,
    pub rank_char: char,
    pub suit_char: char,
    pub suit_letter: char,
    pub chen2: i32,
    pub shift: u32,
    pub next_suit: String,
}

#[derive(Clone, Debug)]
pub struct ClassRec {
    pub ranks: [u8; 5],
    pub flush: bool,
    pub ordinal: u16,
    pub category: String,
    pub class: String,
}

#[derive(Clone, Debug)]
pub struct RangeRec {
    pub lo: u16,
    pub hi: u16,
    pub class: String,
    pub category: String,
    pub pos: usize,
}

pub struct Oracle {
    pub cards: Vec<Card>,
    pub word_to_card: HashMap<u32, usize>,
    pub classes: Vec<ClassRec>,
    pub class_key: HashMap<u32, u16>,
    pub ranges: Vec<RangeRec>,
    pub categories: Vec<String>,
    pub n_classes: u16,
    pub flushes: Vec<u16>,
    pub unique5: Vec<u16>,
    pub products: Vec<u32>,
    pub values: Vec<u16>,
    pub chen: HashMap<(usize, usize, bool), (i32, u8)>,
    pub rank_syms: HashMap<u32, usize>,
    pub suit_syms: HashMap<u32, usize>,
    pub whitespace: Vec<u32>,
    pub comb_omaha: Vec<Vec<u8>>,
    pub comb_six: Vec<Vec<u8>>,
    pub comb_seven: Vec<Vec<u8>>,
    pub presets: HashMap<String, Vec<(u32, u32)>>,
    /// ordinal of every five-card subset of the deck, indexed by colex rank of its deck indices
    pub ord5: Vec<u16>,
    pub flags: HashMap<String, u32>,
    pub all_bits: u64,
    pub overflow_bits: u64,
}

fn load(dir: &str, name: &str) -> Value {
    let p = format!("{}/{}", dir, name);
    let s = fs::read_to_string(&p).unwrap_or_else(|e| {
        eprintln!("TOOLERROR cannot read oracle file {}: {}", p, e);
        std::process::exit(2)
    });
    serde_json::from_str(&s).unwrap_or_else(|e| {
        eprintln!("TOOLERROR cannot parse oracle file {}: {}", p, e);
        std::process::exit(2)
    })
}

fn ch(v: &Value) -> char {
    char::from_u32(v.as_u64().unwrap() as u32).unwrap()
}

pub fn pack_key(ranks_desc: &[u8; 5], flush: bool) -> u32 {
    let mut k = 0u32;
    for r in ranks_desc {
        k = (k << 4) | (*r as u32);
    }
    (k << 1) | (flush as u32)
}

impl Oracle {
    pub fn load(dir: &str) -> Oracle {
        let cj = load(dir, "cards.json");
        let mut cards = vec![];
        for c in cj.as_array().unwrap() {
            cards.push(Card {
                i: c["i"].as_u64().unwrap() as usize,
                rank: c["rank"].as_u64().unwrap() as usize,
                suit: c["suit"].as_u64().unwrap() as usize,
                w: from_hilo(&c["w"]),
                bit: c["bit"].as_u64().unwrap() as u32,
                rank_name: c["rank_name"].as_str().unwrap().to_string(),
                suit_name: c["suit_name"].as_str().unwrap().to_string(),
                prime: c["prime"].as_u64().unwrap() as u32,
                rank_bit: c["rank_bit"].as_u64().unwrap() as u32,
                suit_bit: c["suit_bit"].as_u64().unwrap() as u32,
                rank_char: ch(&c["rank_char"]),
                suit_char: ch(&c["suit_char"]),
                suit_letter: ch(&c["suit_letter"]),
                chen2: c["chen2"].as_i64().unwrap() as i32,
                shift: from_hilo(&c["shift"]),
                next_suit: c["next_suit"].as_str().unwrap().to_string(),
            });
        }
        assert_eq!(cards.len(), 52);
        for (k, c) in cards.iter().enumerate() {
            assert_eq!(c.i, k);
        }
        let word_to_card: HashMap<u32, usize> = cards.iter().map(|c| (c.w, c.i)).collect();
        assert_eq!(word_to_card.len(), 52);

        let klj = load(dir, "classes.json");
        let mut classes = vec![];
        let mut class_key = HashMap::new();
        for c in klj.as_array().unwrap() {
            let r: Vec<u8> = c["ranks"].as_array().unwrap().iter().map(|x| x.as_u64().unwrap() as u8).collect();
            let rec = ClassRec {
                ranks: [r[0], r[1], r[2], r[3], r[4]],
                flush: c["flush"].as_bool().unwrap(),
                ordinal: c["ordinal"].as_u64().unwrap() as u16,
                category: c["category"].as_str().unwrap().to_string(),
                class: c["class"].as_str().unwrap().to_string(),
            };
            class_key.insert(pack_key(&rec.ranks, rec.flush), rec.ordinal);
            classes.push(rec);
        }
        for (k, c) in classes.iter().enumerate() {
            assert_eq!(c.ordinal as usize, k + 1);
        }

        let hj = load(dir, "handrank.json");
        let mut ranges = vec![];
        for r in hj["ranges"].as_array().unwrap() {
            ranges.push(RangeRec {
                lo: r["lo"].as_u64().unwrap() as u16,
                hi: r["hi"].as_u64().unwrap() as u16,
                class: r["class"].as_str().unwrap().to_string(),
                category: r["category"].as_str().unwrap().to_string(),
                pos: r["pos"].as_u64().unwrap() as usize,
            });
        }
        let categories = hj["categories"].as_array().unwrap().iter().map(|s| s.as_str().unwrap().to_string()).collect();
        let n_classes = hj["n"].as_u64().unwrap() as u16;

        let tj = load(dir, "tables.json");
        let u16s = |v: &Value| -> Vec<u16> { v.as_array().unwrap().iter().map(|x| x.as_u64().unwrap() as u16).collect() };
        let flushes = u16s(&tj["flushes"]);
        let unique5 = u16s(&tj["unique5"]);
        let values = u16s(&tj["values"]);
        let products: Vec<u32> = tj["products"].as_array().unwrap().iter().map(|x| x.as_u64().unwrap() as u32).collect();

        let chj = load(dir, "chen.json");
        let mut chen = HashMap::new();
        for c in chj.as_array().unwrap() {
            chen.insert(
                (c["r1"].as_u64().unwrap() as usize, c["r2"].as_u64().unwrap() as usize, c["suited"].as_bool().unwrap()),
                (c["score"].as_i64().unwrap() as i32, c["gap"].as_u64().unwrap() as u8),
            );
        }

        let sj = load(dir, "symbols.json");
        let pairs = |v: &Value| -> HashMap<u32, usize> {
            v.as_array()
                .unwrap()
                .iter()
                .map(|p| (p[0].as_u64().unwrap() as u32, p[1].as_u64().unwrap() as usize))
                .collect()
        };
        let rank_syms = pairs(&sj["rank_syms"]);
        let suit_syms = pairs(&sj["suit_syms"]);
        let whitespace: Vec<u32> = sj["whitespace"].as_array().unwrap().iter().map(|x| x.as_u64().unwrap() as u32).collect();

        let coj = load(dir, "combos.json");
        let rows = |v: &Value| -> Vec<Vec<u8>> {
            v.as_array()
                .unwrap()
                .iter()
                .map(|r| r.as_array().unwrap().iter().map(|x| x.as_u64().unwrap() as u8).collect())
                .collect()
        };
        let mut presets = HashMap::new();
        for (k, v) in coj["presets"].as_object().unwrap() {
            let list: Vec<(u32, u32)> = v.as_array().unwrap().iter().map(|p| (from_hilo(&p[0]), from_hilo(&p[1]))).collect();
            presets.insert(k.clone(), list);
        }

        let lj = load(dir, "layout.json");
        let mut flags = HashMap::new();
        for k in ["pair", "trips", "quads", "strip_mask"] {
            flags.insert(k.to_string(), from_hilo(&lj[k]));
        }
        let l64 = |v: &Value| -> u64 {
            let a = v.as_array().unwrap();
            (a[0].as_u64().unwrap() << 48) | (a[1].as_u64().unwrap() << 32) | (a[2].as_u64().unwrap() << 16) | a[3].as_u64().unwrap()
        };
        let all_bits = l64(&lj["all"]);
        let overflow_bits = l64(&lj["overflow"]);
        let mut o = Oracle {
            cards,
            word_to_card,
            classes,
            class_key,
            ranges,
            categories,
            n_classes,
            flushes,
            unique5,
            products,
            values,
            chen,
            rank_syms,
            suit_syms,
            whitespace,
            comb_omaha: rows(&coj["omaha"]),
            comb_six: rows(&coj["six"]),
            comb_seven: rows(&coj["seven"]),
            presets,
            ord5: vec![],
            flags,
            all_bits,
            overflow_bits,
        };
        o.build_ord5();
        o
    }

    /// Expected ordinal of five distinct cards given by deck indices (any order):
    /// project to (ranks sorted descending, all suits equal) and look the class up.
    pub fn ordinal_of(&self, idx: &[usize]) -> u16 {
        let mut r = [0u8; 5];
        let mut flush = true;
        for k in 0..5 {
            r[k] = self.cards[idx[k]].rank as u8;
            if self.cards[idx[k]].suit != self.cards[idx[0]].suit {
                flush = false;
            }
        }
        r.sort_unstable_by(|a, b| b.cmp(a));
        *self.class_key.get(&pack_key(&r, flush)).expect("class of five distinct cards exists")
    }

    fn build_ord5(&mut self) {
        let n = choose(52, 5) as usize;
        let mut v = vec![0u16; n];
        let mut idx = [0usize, 1, 2, 3, 4];
        loop {
            v[colex_rank(&idx)] = self.ordinal_of(&idx);
            if !crate::util::next_combination(&mut idx, 52) {
                break;
            }
        }
        self.ord5 = v;
    }

    /// Expected value of 5..7 distinct cards (sorted increasing deck indices): the minimum over
    /// the harness's own enumeration of five-card subsets.
    pub fn best_of(&self, idx: &[usize]) -> u16 {
        let n = idx.len();
        if n == 5 {
            return self.ord5[colex_rank(idx)];
        }
        let mut best = u16::MAX;
        let mut sub = [0usize; 5];
        // drop (n - 5) positions
        if n == 6 {
            for d in 0..6 {
                let mut k = 0;
                for (p, &c) in idx.iter().enumerate() {
                    if p != d {
                        sub[k] = c;
                        k += 1;
                    }
                }
                best = best.min(self.ord5[colex_rank(&sub)]);
            }
        } else {
            for d1 in 0..7 {
                for d2 in d1 + 1..7 {
                    let mut k = 0;
                    for (p, &c) in idx.iter().enumerate() {
                        if p != d1 && p != d2 {
                            sub[k] = c;
                            k += 1;
                        }
                    }
                    best = best.min(self.ord5[colex_rank(&sub)]);
                }
            }
        }
        best
    }

    pub fn range_of(&self, v: u16) -> Option<&RangeRec> {
        if v == 0 || v > self.n_classes {
            return None;
        }
        // ranges are sorted by lo
        let mut lo = 0usize;
        let mut hi = self.ranges.len();
        while lo + 1 < hi {
            let mid = (lo + hi) / 2;
            if self.ranges[mid].lo <= v {
                lo = mid;
            } else {
                hi = mid;
            }
        }
        Some(&self.ranges[lo])
    }
    pub fn name_of(&self, v: u16) -> &str {
        self.range_of(v).map(|r| r.category.as_str()).unwrap_or("Invalid")
    }
    pub fn class_of(&self, v: u16) -> &str {
        self.range_of(v).map(|r| r.class.as_str()).unwrap_or("Invalid")
    }
    pub fn flag_word(&self, m: &str) -> u32 {
        self.flags[m]
    }
    pub fn words(&self, idx: &[usize]) -> Vec<u32> {
        idx.iter().map(|&i| self.cards[i].w).collect()
    }
}
