//! Conformance harness binding spec/*.tla to the real ckc-rs (path dependency on /repo, rebuilt by
//! every check).  Three sub-commands:
//!
//!   replay <ID> --gen DIR --tier quick|thorough --seed N --out FILE
//!       specification -> implementation: enumerate the concrete input space of property ID and
//!       compare every observation with the oracle TLC generated from the specification.
//!   trace  <ID> --gen DIR --tier T --seed N --out FILE.ndjson
//!       implementation -> specification: record real calls (arguments and results) for TLC to
//!       validate against spec/CkcTrace.tla.
//!   replay-case FILE
//!       re-run the single case of a violation replay file; exit 1 if it still fails.
//!
//! Exit codes: 0 held, 1 violation (details in --out), 2 tool error.

mod hands;
mod named;
mod observe;
mod oracle;
mod props;
mod trace;
mod util;

use serde_json::{json, Value};
use std::io::Write;

fn arg(args: &[String], name: &str, default: &str) -> String {
    args.iter().position(|a| a == name).and_then(|i| args.get(i + 1)).cloned().unwrap_or_else(|| default.to_string())
}

fn main() {
    util::silence_panics();
    let args: Vec<String> = std::env::args().collect();
    if args.len() < 3 {
        eprintln!("usage: harness replay|trace <ID> --gen DIR --tier T --seed N --out FILE | replay-case FILE");
        std::process::exit(2);
    }
    let cmd = args[1].as_str();
    match cmd {
        "replay" | "trace" => {
            let id = args[2].clone();
            let gen = arg(&args, "--gen", "/verif/gen");
            let tier = arg(&args, "--tier", "quick");
            let seed: u64 = arg(&args, "--seed", "1").parse().unwrap_or(1);
            let out = arg(&args, "--out", "/dev/stdout");
            let o = oracle::Oracle::load(&gen);
            let t0 = std::time::Instant::now();
            if cmd == "replay" {
                let rep = util::Report::new(&id);
                if !props::run(&id, &o, &tier, seed, &rep) {
                    eprintln!("TOOLERROR unknown property {}", id);
                    std::process::exit(2);
                }
                let mut j = rep.to_json();
                j["wall_s"] = json!(t0.elapsed().as_secs_f64());
                j["tier"] = json!(tier);
                j["seed"] = json!(seed);
                j["profile"] = json!(if cfg!(debug_assertions) { "checked" } else { "release" });
                std::fs::write(&out, serde_json::to_string_pretty(&j).unwrap()).expect("write report");
                std::process::exit(if rep.ok() { 0 } else { 1 });
            } else {
                let f = std::fs::File::create(&out).expect("create trace file");
                let mut w = std::io::BufWriter::new(f);
                let n = trace::run(&id, &o, &tier, seed, &mut w);
                w.flush().unwrap();
                match n {
                    Some(n) => println!("{}", json!({"events": n, "wall_s": t0.elapsed().as_secs_f64()})),
                    None => {
                        eprintln!("TOOLERROR unknown property {}", id);
                        std::process::exit(2);
                    }
                }
            }
        }
        "replay-case" => {
            let s = std::fs::read_to_string(&args[2]).expect("read replay file");
            let case: Value = serde_json::from_str(&s).expect("parse replay file");
            let observed = observe::observe(&case["event"]);
            let mut still = false;
            if let Some(exp) = case["expected"].as_object() {
                for (k, v) in exp {
                    if let Some(base) = k.strip_suffix("_not") {
                        if &observed[base] == v {
                            println!("field {}: must not be {}", base, v);
                            still = true;
                        }
                    } else if observed.get(k).is_none() {
                        println!("field {}: not observable on replay (expected {})", k, v);
                    } else if &observed[k] != v {
                        println!("field {}: expected {} observed {}", k, v, observed[k]);
                        still = true;
                    }
                }
            }
            println!("{}", serde_json::to_string(&observed).unwrap());
            if still {
                println!("VIOLATION property={} replay={}", case["property"].as_str().unwrap_or("?"), args[2]);
                std::process::exit(1);
            }
            println!("case no longer fails");
        }
        _ => {
            eprintln!("unknown command {}", cmd);
            std::process::exit(2);
        }
    }
}
