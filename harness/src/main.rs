//! Conformance harness binding spec/*.tla to the real ckc-rs (path dependency on /repo, rebuilt by
//! every check).  Three sub-commands:
//!
//!   replay <ID> --gen DIR --tier quick|thorough --seed N --out FILE
//!       specification -> implementation: enumerate the concrete input space of property ID and
//!       compare every observation with the oracle TLC generated from the specification.
//!   trace  <ID> --gen DIR --tier T --seed N --out FILE.ndjson
//!       implementation -> specification: record real calls (arguments and results) for TLC to
//!       validate against spec/CkcTrace.tla.
//!   replay-case FILE
//!       re-run the single case of a violation replay file; exit 1 if it still fails.
//!
//! Exit codes: 0 held, 1 violation (details in --out), 2 tool error.

mod hands;
mod named;
mod observe;
mod oracle;
mod props;
mod session;
mod trace;
mod util;

use serde_json::{json, Value};
use std::io::Write;

fn arg(args: &[String], name: &str, default: &str) -> String {
    args.iter().position(|a| a == name).and_then(|i| args.get(i + 1)).cloned().unwrap_or_else(|| default.to_string())
}

fn main() {
    util::silence_panics();
    // VERIF_LOG_LEVEL=trace: run with the `log` facade's maximum level raised (no logger installed), so that
    // code inside logging macros in ckc-rs is evaluated as it is in a program that logs
    let log_level = std::env::var("VERIF_LOG_LEVEL").unwrap_or_default();
    if log_level == "trace" {
        log::set_max_level(log::LevelFilter::Trace);
    }
    let args: Vec<String> = std::env::args().collect();
    if args.len() < 3 {
        eprintln!("usage: harness replay|trace <ID> --gen DIR --tier T --seed N --out FILE | replay-case FILE");
        std::process::exit(2);
    }
    let cmd = args[1].as_str();
    match cmd {
        "replay" | "trace" => {
            let id = args[2].clone();
            let gen = arg(&args, "--gen", "/verif/gen");
            let tier = arg(&args, "--tier", "quick");
            let seed: u64 = arg(&args, "--seed", "1").parse().unwrap_or(1);
            let out = arg(&args, "--out", "/dev/stdout");
            let o = oracle::Oracle::load(&gen);
            let t0 = std::time::Instant::now();
            if cmd == "replay" {
                let rep = util::Report::new(&id);
                let ran = std::panic::catch_unwind(std::panic::AssertUnwindSafe(|| props::run(&id, &o, &tier, seed, &rep)));
                match ran {
                    Ok(true) => {}
                    Ok(false) => {
                        eprintln!("TOOLERROR unknown property {}", id);
                        std::process::exit(2);
                    }
                    Err(_) => {
                        // safety net: a call into ckc-rs unwound at a site the replay does not guard individually
                        match util::last_panic_in_code_under_test() {
                            Some((file, line, msg)) => rep.violation(json!({"property": id, "why": "a call into ckc-rs unwound",
                                "event": {"op": "reset"}, "expected": {}, "panic": msg, "at": format!("{}:{}", file, line)})),
                            None => {
                                let last = util::LAST_PANIC.lock().ok().and_then(|g| g.clone());
                                eprintln!("TOOLERROR the harness itself panicked: {:?}", last);
                                std::process::exit(2);
                            }
                        }
                    }
                }
                let mut j = rep.to_json();
                j["wall_s"] = json!(t0.elapsed().as_secs_f64());
                j["tier"] = json!(tier);
                j["seed"] = json!(seed);
                j["profile"] = json!(if cfg!(debug_assertions) { "checked" } else { "release" });
                j["log_level"] = json!(if log_level == "trace" { "trace" } else { "default" });
                std::fs::write(&out, serde_json::to_string_pretty(&j).unwrap()).expect("write report");
                std::process::exit(if rep.ok() { 0 } else { 1 });
            } else {
                let f = std::fs::File::create(&out).expect("create trace file");
                let mut w = std::io::BufWriter::new(f);
                let n = trace::run(&id, &o, &tier, seed, &mut w);
                w.flush().unwrap();
                match n {
                    Some(n) => println!("{}", json!({"events": n, "wall_s": t0.elapsed().as_secs_f64()})),
                    None => {
                        eprintln!("TOOLERROR unknown property {}", id);
                        std::process::exit(2);
                    }
                }
            }
        }
        "panic-probe" => {
            // self-test of the panic classification: an unvalidated ranking of non-card words indexes out of range
            let r = util::guarded(|| hands::rank_value(&hands::Hand::from_words(&[u32::MAX; 5])));
            let last = util::LAST_PANIC.lock().unwrap().clone();
            let inside = util::last_panic_in_code_under_test().is_some();
            println!("{:?} {:?} in_code_under_test={:?}", r, last, inside);
        }
        "session" => {
            // replay TLC-generated behaviours of spec/CkcSession.tla (one JSON array per line)
            let rep = session::run(&args[2]);
            println!("{}", serde_json::to_string(&rep).unwrap());
            let failed = rep["failures"].as_array().map(|a| !a.is_empty()).unwrap_or(false);
            std::process::exit(if failed { 1 } else { 0 });
        }
        "replay-case" => {
            let s = std::fs::read_to_string(&args[2]).expect("read replay file");
            let case: Value = serde_json::from_str(&s).expect("parse replay file");
            let observed = observe::observe(&case["event"]);
            let mut still = observed.get("panic").is_some();
            if still {
                println!("the call unwound: {}", observed["panic"]);
            }
            if let Some(exp) = case["expected"].as_object() {
                for (k, v) in exp {
                    if let Some(base) = k.strip_suffix("_not") {
                        if &observed[base] == v {
                            println!("field {}: must not be {}", base, v);
                            still = true;
                        }
                    } else if observed.get(k).is_none() {
                        println!("field {}: not observable on replay (expected {})", k, v);
                    } else if &observed[k] != v {
                        println!("field {}: expected {} observed {}", k, v, observed[k]);
                        still = true;
                    }
                }
            }
            println!("{}", serde_json::to_string(&observed).unwrap());
            if still {
                println!("VIOLATION property={} replay={}", case["property"].as_str().unwrap_or("?"), args[2]);
                std::process::exit(1);
            }
            println!("case no longer fails");
        }
        _ => {
            eprintln!("unknown command {}", cmd);
            std::process::exit(2);
        }
    }
}
