//! C01, C02, C03, C05, C08, C09, C13: the evaluator.

use super::*;
use ckc_rs::cards::five::Five;
use ckc_rs::cards::HandRanker;

const ENTRY5: [&str; 6] = ["v_value", "v_rank", "value", "v_validated", "v_rank_validated", "v_free"];

/// The six five-card entry points on one array; Err if any of them unwound.
fn five_entries(w: [u32; 5]) -> Result<[u16; 6], String> {
    guarded(|| {
        let f = Five::from(w);
        [
            f.hand_rank_value(),
            f.hand_rank().value,
            f.hand_rank_value_and_hand().0,
            f.hand_rank_value_validated(),
            f.hand_rank_validated().value,
            ckc_rs::evaluate::five_cards(w),
        ]
    })
}

fn words5(o: &Oracle, idx: &[usize]) -> [u32; 5] {
    [o.cards[idx[0]].w, o.cards[idx[1]].w, o.cards[idx[2]].w, o.cards[idx[3]].w, o.cards[idx[4]].w]
}

fn permuted<const N: usize>(w: [u32; N], p: &[usize]) -> [u32; N] {
    let mut r = [0u32; N];
    for k in 0..N {
        r[k] = w[p[k]];
    }
    r
}

fn check_five(o: &Oracle, rep: &Report, w: [u32; 5], exp: u16, all_entries: bool) {
    let _ = o;
    match five_entries(w) {
        Ok(vs) => {
            let upto = if all_entries { 6 } else { 6 };
            for k in 0..upto {
                if vs[k] != exp {
                    viol(
                        rep,
                        json!({"op":"rank5","words":hilo_arr(&w)}),
                        json!({ENTRY5[k]: exp}),
                        "five-card value differs from the strength ordinal of the hand's class",
                    );
                    return;
                }
            }
        }
        Err(_) => viol(rep, json!({"op":"rank5","words":hilo_arr(&w)}), json!({"value": exp}), "five-card ranking unwound"),
    }
}

pub fn colex_unrank(mut r: u64, k: usize) -> Vec<usize> {
    let mut out = vec![0usize; k];
    for i in (0..k).rev() {
        // largest c with choose(c, i+1) <= r
        let mut c = i;
        while choose(c + 1, i + 1) <= r {
            c += 1;
        }
        out[i] = c;
        r -= choose(c, i + 1);
    }
    out
}

pub fn c01(o: &Oracle, thorough: bool, seed: u64, rep: &Report) {
    let perms = permutations(5);
    let produced = Bits::new(65536);
    let hands = AtomicU64::new(0);
    // all 2,598,960 hands: canonical order and one seeded order, all six entry points;
    // thorough: all 120 orders, all six entry points.
    par_subsets(5, |idx, ctr| {
        let w = words5(o, idx);
        let exp = o.ord5[colex_rank(idx)];
        hands.fetch_add(1, Ordering::Relaxed);
        check_five(o, rep, w, exp, true);
        if let Ok(vs) = five_entries(w) {
            produced.set(vs[0] as usize);
        }
        if thorough {
            for p in perms.iter().skip(1) {
                check_five(o, rep, permuted(w, p), exp, true);
            }
            rep.eval(120 * 6);
        } else {
            let p = &perms[(mix(seed, ctr) % 120) as usize];
            check_five(o, rep, permuted(w, p), exp, true);
            // every slot order through the trait ranking and the validated ranking (the other entry
            // points are covered on two orders here and on all orders in the thorough tier)
            for p in perms.iter().skip(1) {
                let pw = permuted(w, p);
                let got = guarded(|| {
                    let f = Five::from(pw);
                    (f.hand_rank_value(), f.hand_rank_value_validated())
                });
                if got != Ok((exp, exp)) {
                    check_five(o, rep, pw, exp, true);
                }
            }
            rep.eval(2 * 6 + 119 * 2);
        }
        if ctr & 0xFFFF_FFFF == 7 && (ctr >> 32) % 300 == 0 {
            rep.sample(json!({"words": hilo_arr(&w), "expected_ordinal": exp, "class": o.classes[exp as usize - 1].class}));
        }
    });
    let n = hands.load(Ordering::Relaxed);
    rep.distinct(n);
    rep.space("five-card subsets of the deck", n == choose(52, 5), n);
    rep.space("slot orders per hand: all 120 (thorough: through all six entry points; quick: through trait and validated ranking, all six on two orders)", true, 120);

    // quick: additionally all 120 orders for one seeded hand per class
    if !thorough {
        let mut best: Vec<(u64, u64)> = vec![(u64::MAX, 0); o.n_classes as usize + 1];
        for (r, &v) in o.ord5.iter().enumerate() {
            let h = mix(seed ^ 0xC01, r as u64);
            if h < best[v as usize].0 {
                best[v as usize] = (h, r as u64);
            }
        }
        par_chunks(o.n_classes as usize, |c| {
            let v = c + 1;
            let idx = colex_unrank(best[v].1, 5);
            let w = words5(o, &idx);
            for p in perms.iter() {
                check_five(o, rep, permuted(w, p), v as u16, true);
            }
            rep.eval(120 * 6);
        });
        rep.space("all 120 slot orders of one seeded hand per class", true, o.n_classes as u64 * 120);
    }

    // surjectivity: exactly the values 1..=7462 are produced
    for v in 0..65536usize {
        let should = v >= 1 && v <= o.n_classes as usize;
        if produced.get(v) != should {
            rep.violation(json!({"property":"C01","why": if should {"a value in 1..=7462 is produced by no hand"} else {"a value outside 1..=7462 is produced"},
                "event": {"op":"hr_from","v": v}, "expected": {}, "value": v}));
        }
    }

    // advisory: the product search returns the ideal index for each of the 4,888 products
    for (i, p) in o.products.iter().enumerate() {
        let r = guarded(|| Five::find_in_products(*p as usize));
        if r != Ok(i) {
            advise(rep, json!({"op":"find","key":limbs(*p as u64)}), json!({"res": i}), "find_in_products index differs from the ideal table");
        }
        rep.eval(1);
    }
}

/// Per-row bookkeeping for the seven-card table: how often each row is the unique decider.
fn unique_decider(o: &Oracle, idx: &[usize], rows: &[Vec<u8>]) -> Option<usize> {
    let mut best = u16::MAX;
    let mut who = None;
    let mut ties = 0;
    for (ri, row) in rows.iter().enumerate() {
        let mut sub = [0usize; 5];
        for k in 0..5 {
            sub[k] = idx[row[k] as usize];
        }
        sub.sort_unstable();
        let v = o.ord5[colex_rank(&sub)];
        if v < best {
            best = v;
            who = Some(ri);
            ties = 1;
        } else if v == best {
            ties += 1;
        }
    }
    if ties == 1 {
        who
    } else {
        None
    }
}

fn check_witness(o: &Oracle, rep: &Report, w: &[u32], witness: &[u32; 5], value: u16) -> bool {
    // five cards, strictly decreasing, all from the input, and worth exactly `value`
    let mut ok = true;
    let mut idx = [0usize; 5];
    for k in 0..5 {
        match o.word_to_card.get(&witness[k]) {
            Some(&i) if w.contains(&witness[k]) => idx[k] = i,
            _ => ok = false,
        }
        if k > 0 && !(witness[k - 1] > witness[k]) {
            ok = false;
        }
    }
    if ok {
        // "ranking that reported hand on its own gives exactly the reported value": code against code
        // (what the value of five cards is belongs to C01)
        if guarded(|| Five::from(*witness).hand_rank_value()) != Ok(value) {
            ok = false;
        }
    }
    if !ok {
        let _ = rep;
    }
    ok
}

pub fn c02_c03(o: &Oracle, thorough: bool, seed: u64, rep: &Report, witness_prop: bool) {
    let perms6 = permutations(6);
    let perms7 = permutations(7);
    let decider: Vec<AtomicU64> = (0..21).map(|_| AtomicU64::new(0)).collect();
    let decider6: Vec<AtomicU64> = (0..6).map(|_| AtomicU64::new(0)).collect();
    for &n in &[6usize, 7usize] {
        let hands = AtomicU64::new(0);
        let all_order_hands = AtomicU64::new(0);
        let total = choose(52, n);
        let stride: u64 = if thorough { 1 } else if n == 6 { 1 } else { 16 };
        par_subsets(n, |idx, ctr| {
            let pick = mix(seed ^ n as u64, ctr);
            if stride > 1 && pick % stride != 0 {
                return;
            }
            hands.fetch_add(1, Ordering::Relaxed);
            let exp = o.best_of(idx);
            let canon = o.words(idx);
            // canonical order for sixes and in the thorough tier; a seeded slot order otherwise / in addition
            let mut orders: Vec<Vec<u32>> = vec![];
            let seeded: Vec<u32> = {
                let p = if n == 6 { &perms6[(pick >> 8) as usize % 720] } else { &perms7[(pick >> 8) as usize % 5040] };
                p.iter().map(|&k| canon[k]).collect()
            };
            if n == 6 || thorough {
                orders.push(canon.clone());
                // ... and the same cards in ascending card order (the reverse of deck order)
                orders.push(canon.iter().rev().cloned().collect());
            } else if pick % 4 == 0 {
                orders.push(canon.iter().rev().cloned().collect());
            }
            if n == 7 || thorough || pick % 8 == 0 {
                orders.push(seeded.clone());
            }
            // ... in descending and ascending order of the words themselves (what sort() produces: rank-major,
            // unlike deck order, which is suit-major)
            {
                let mut by_word = canon.clone();
                by_word.sort_unstable_by(|a, b| b.cmp(a));
                orders.push(by_word.clone());
                if n == 6 || thorough || pick % 4 == 1 {
                    by_word.reverse();
                    orders.push(by_word);
                }
            }
            // ... and in EVERY slot order for every hand whose best five cards are a straight flush and for a
            // seeded 1/2048 of the others (value / witness only)
            if exp <= 10 || (pick >> 20) % 2048 == 0 {
                all_order_hands.fetch_add(1, Ordering::Relaxed);
                let perms = if n == 6 { &perms6 } else { &perms7 };
                for p in perms.iter() {
                    let w: Vec<u32> = p.iter().map(|&k| canon[k]).collect();
                    let h = Hand::from_words(&w);
                    if witness_prop {
                        match guarded(|| rank_value_and_hand(&h)) {
                            Ok(r) => {
                                if !check_witness(o, rep, &w, &r.witness, r.value) {
                                    viol(rep, json!({"op":"rankn","words":hilo_arr(&w)}), json!({"witness_ok": true}),
                                         "reported best hand is not five distinct input cards in descending order worth the reported value");
                                }
                            }
                            Err(_) => viol(rep, json!({"op":"rankn","words":hilo_arr(&w)}), json!({"value": exp}), "ranking unwound"),
                        }
                    } else {
                        match guarded(|| (rank_value(&h), rank_value_validated(&h))) {
                            Ok((a, c)) => {
                                if a != exp || c != exp {
                                    viol(rep, json!({"op":"rankn","words":hilo_arr(&w)}), json!({(if a != exp { "v_value" } else { "v_validated" }): exp}),
                                         "six/seven-card value differs from the best five-card value contained in the hand (every-slot-order family)");
                                }
                            }
                            Err(_) => viol(rep, json!({"op":"rankn","words":hilo_arr(&w)}), json!({"value": exp}), "ranking unwound"),
                        }
                    }
                }
                rep.eval(perms.len() as u64);
            }
            for w in &orders {
                let h = Hand::from_words(w);
                if witness_prop {
                    match guarded(|| rank_value_and_hand(&h)) {
                        Ok(r) => {
                            if !check_witness(o, rep, w, &r.witness, r.value) {
                                viol(rep, json!({"op":"rankn","words":hilo_arr(w)}), json!({"witness_ok": true}),
                                     "reported best hand is not five distinct input cards in descending order worth the reported value");
                            }
                        }
                        Err(_) => viol(rep, json!({"op":"rankn","words":hilo_arr(w)}), json!({"value": exp}), "ranking unwound"),
                    }
                    rep.eval(1);
                } else {
                    let r = guarded(|| (rank_value(&h), rank_value_and_hand(&h).value, rank_value_validated(&h), hand_rank(&h).value, hand_rank_validated(&h).value));
                    match r {
                        Ok((a, b, c, d, e)) => {
                            let names = ["v_value", "value", "v_validated", "v_rank", "v_rank_validated"];
                            for (k, v) in [a, b, c, d, e].iter().enumerate() {
                                if *v != exp {
                                    viol(rep, json!({"op":"rankn","words":hilo_arr(w)}), json!({names[k]: exp}),
                                         "six/seven-card value differs from the best five-card value contained in the hand");
                                    break;
                                }
                            }
                        }
                        Err(_) => viol(rep, json!({"op":"rankn","words":hilo_arr(w)}), json!({"value": exp}), "ranking unwound"),
                    }
                    rep.eval(5);
                }
            }
            // which table row decides (in the seeded slot order)
            let sidx: Vec<usize> = seeded.iter().map(|w| o.word_to_card[w]).collect();
            if n == 7 {
                if let Some(r) = unique_decider(o, &sidx, &o.comb_seven) {
                    decider[r].fetch_add(1, Ordering::Relaxed);
                }
            } else if pick % 8 == 0 || thorough {
                if let Some(r) = unique_decider(o, &sidx, &o.comb_six) {
                    decider6[r].fetch_add(1, Ordering::Relaxed);
                }
            }
            if pick % 4_000_000 == 0 {
                rep.sample(json!({"n": n, "words": hilo_arr(&seeded), "expected_value": exp}));
            }
        });
        let hn = hands.load(Ordering::Relaxed);
        rep.distinct(hn);
        rep.space(&format!("{}-card subsets of the deck", n), hn == total, hn);
        let an = all_order_hands.load(Ordering::Relaxed);
        rep.space(&format!("{}-card hands in every one of their {} slot orders (all sampled hands whose best five are a straight flush, 1/2048 of the rest)", n, if n == 6 { 720 } else { 5040 }), false, an);
    }
    let d7: Vec<u64> = decider.iter().map(|a| a.load(Ordering::Relaxed)).collect();
    let d6: Vec<u64> = decider6.iter().map(|a| a.load(Ordering::Relaxed)).collect();
    rep.note(format!("hands for which each of the 21 seven-slot rows is the unique decider: {:?}", d7));
    rep.note(format!("hands for which each of the 6 six-slot rows is the unique decider: {:?}", d6));
    if d7.iter().any(|&c| c < 1000) || d6.iter().any(|&c| c < 1000) {
        rep.note("WEAK: some table row decides fewer than 1000 sampled hands".to_string());
    }

    if witness_prop {
        // identity clause: a five-card input is reported unchanged (seeded slot order)
        let perms = permutations(5);
        par_subsets(5, |idx, ctr| {
            let w = permuted(words5(o, idx), &perms[(mix(seed, ctr) % 120) as usize]);
            let h = Hand::from_words(&w);
            match guarded(|| rank_value_and_hand(&h)) {
                Ok(r) => {
                    if r.witness != w {
                        viol(rep, json!({"op":"rank5","words":hilo_arr(&w)}), json!({"witness": hilo_arr(&w)}), "five-card ranking does not report the input unchanged");
                    }
                }
                Err(_) => viol(rep, json!({"op":"rank5","words":hilo_arr(&w)}), json!({"witness": hilo_arr(&w)}), "ranking unwound"),
            }
            rep.eval(1);
        });
        rep.space("five-card subsets (identity clause)", true, choose(52, 5));
    }
}

pub fn c09(o: &Oracle, thorough: bool, seed: u64, rep: &Report) {
    // oracle-free: implementation values only
    let n5 = choose(52, 5) as usize;
    let n6 = choose(52, 6) as usize;
    let v5: Vec<AtomicU64> = Vec::new();
    drop(v5);
    let v5 = {
        let cells: Vec<std::sync::atomic::AtomicU16> = (0..n5).map(|_| std::sync::atomic::AtomicU16::new(0)).collect();
        par_subsets(5, |idx, _| {
            let w = o.words(idx);
            let v = guarded(|| rank_value(&Hand::from_words(&w))).unwrap_or(u16::MAX);
            cells[colex_rank(idx)].store(v, Ordering::Relaxed);
        });
        cells
    };
    rep.eval(n5 as u64);
    let v6: Vec<std::sync::atomic::AtomicU16> = (0..n6).map(|_| std::sync::atomic::AtomicU16::new(0)).collect();
    let perms6 = permutations(6);
    let extra = AtomicU64::new(0);
    par_subsets(6, |idx, ctr| {
        let w = o.words(idx);
        let v = guarded(|| rank_value(&Hand::from_words(&w))).unwrap_or(u16::MAX);
        let rev: Vec<u32> = w.iter().rev().cloned().collect();
        let vr = guarded(|| rank_value(&Hand::from_words(&rev))).unwrap_or(u16::MAX);
        if vr != v && vr != u16::MAX && v != u16::MAX {
            viol(rep, json!({"op":"rankn","words":hilo_arr(&rev)}), json!({"value": v}), "six-card value depends on the slot order");
        }
        v6[colex_rank(idx)].store(v, Ordering::Relaxed);
        {
            let mut by_word = w.clone();
            by_word.sort_unstable_by(|a, b| b.cmp(a));
            let mut alts = vec![by_word.clone()];
            by_word.reverse();
            alts.push(by_word);
            if v <= 10 || mix(seed ^ 0x66, ctr) % 2048 == 0 {
                for p in perms6.iter() {
                    alts.push(p.iter().map(|&k| w[k]).collect());
                }
            }
            for alt in &alts {
                let va = guarded(|| rank_value(&Hand::from_words(alt))).unwrap_or(u16::MAX);
                if va != v && va != u16::MAX && v != u16::MAX {
                    viol(rep, json!({"op":"rankn","words":hilo_arr(alt)}), json!({"value": v}), "six-card value depends on the slot order");
                }
            }
            extra.fetch_add(alts.len() as u64, Ordering::Relaxed);
        }
        let mut m = u16::MAX;
        let mut sub = [0usize; 5];
        for d in 0..6 {
            let mut k = 0;
            for (p, &c) in idx.iter().enumerate() {
                if p != d {
                    sub[k] = c;
                    k += 1;
                }
            }
            let s = v5[colex_rank(&sub)].load(Ordering::Relaxed);
            m = m.min(s);
        }
        // (a ranking that unwinds has no value to relate: that is C05's statement)
        if v != u16::MAX && v != m {
            viol(rep, json!({"op":"rankn","words":hilo_arr(&w)}), json!({"value": m}), "six-card value is not the smallest of its six five-card values");
        }
        if ctr % 3_000_000 == 0 {
            rep.sample(json!({"six": hilo_arr(&w), "value": v, "min_of_fives": m}));
        }
    });
    rep.eval(n6 as u64 * 7);
    rep.distinct(n6 as u64);
    rep.space("six-card subsets with all their five-card sub-hands", true, n6 as u64);
    let hands = AtomicU64::new(0);
    let perms7 = permutations(7);
    let stride: u64 = if thorough { 1 } else { 16 };
    par_subsets(7, |idx, ctr| {
        if stride > 1 && mix(seed ^ 9, ctr) % stride != 0 {
            return;
        }
        hands.fetch_add(1, Ordering::Relaxed);
        let w = o.words(idx);
        let v = guarded(|| rank_value(&Hand::from_words(&w))).unwrap_or(u16::MAX);
        // the value may not depend on the slot order: ascending card order and a seeded order as well
        let rev: Vec<u32> = w.iter().rev().cloned().collect();
        let shuf: Vec<u32> = perms7[(mix(seed ^ 0x77, ctr) % 5040) as usize].iter().map(|&k| w[k]).collect();
        let mut alts: Vec<Vec<u32>> = vec![rev, shuf];
        {
            let mut by_word = w.clone();
            by_word.sort_unstable_by(|a, b| b.cmp(a));
            alts.push(by_word.clone());
            by_word.reverse();
            alts.push(by_word);
            if v <= 10 || mix(seed ^ 0x67, ctr) % 2048 == 0 {
                for p in perms7.iter() {
                    alts.push(p.iter().map(|&k| w[k]).collect());
                }
            }
            extra.fetch_add(alts.len() as u64, Ordering::Relaxed);
        }
        for alt in alts.iter() {
            let va = guarded(|| rank_value(&Hand::from_words(alt))).unwrap_or(u16::MAX);
            if va != v && va != u16::MAX && v != u16::MAX {
                viol(rep, json!({"op":"deal","words":hilo_arr(alt)}), json!({"v7": v}), "seven-card value depends on the slot order, so it is not the smallest of its six-card values in every order");
            }
        }
        let mut m = u16::MAX;
        let mut sub = [0usize; 6];
        for d in 0..7 {
            let mut k = 0;
            for (p, &c) in idx.iter().enumerate() {
                if p != d {
                    sub[k] = c;
                    k += 1;
                }
            }
            m = m.min(v6[colex_rank(&sub)].load(Ordering::Relaxed));
        }
        if v != u16::MAX && v != m {
            viol(rep, json!({"op":"deal","words":hilo_arr(&w)}), json!({"v7": m}), "seven-card value is not the smallest of its seven six-card values");
        }
    });
    let h = hands.load(Ordering::Relaxed);
    rep.eval(h * 10 + extra.load(Ordering::Relaxed));
    rep.note("slot orders: deck order, reversed, seeded, word-descending, word-ascending for every hand; every slot order (720 / 5040) for every straight-flush hand and a seeded 1/2048 of the rest".to_string());
    rep.distinct(h);
    rep.space("seven-card subsets with all their six-card sub-hands", h == choose(52, 7), h);
}

pub fn c13(o: &Oracle, _thorough: bool, seed: u64, rep: &Report) {
    let perms = permutations(5);
    par_subsets(5, |idx, ctr| {
        let canon = words5(o, idx);
        let v = o.ord5[colex_rank(idx)];
        let cls = &o.classes[v as usize - 1];
        let e_flush = cls.flush;
        let e_straight = cls.category == "Straight" || cls.category == "StraightFlush";
        let e_sf = cls.category == "StraightFlush";
        let e_wheel = cls.ranks == [12, 3, 2, 1, 0];
        let mut e_or = 0u32;
        for &i in idx {
            e_or |= o.cards[i].rank_bit;
        }
        let _ = seed;
        for (pi, p) in perms.iter().enumerate() {
            let w = permuted(canon, p);
            let f = Five::from(w);
            if pi > 1 {
                // the remaining 118 slot orders: the four predicates and the two bit observables only
                let got = guarded(|| (f.is_flush(), f.is_straight(), f.is_straight_flush(), f.is_wheel(), f.or_rank_bits()));
                if got.as_ref().map(|g| (g.0, g.1, g.2, g.3)) != Ok((e_flush, e_straight, e_sf, e_wheel)) {
                    viol(rep, json!({"op":"rank5","words":hilo_arr(&w)}),
                         json!({"flush": e_flush, "straight": e_straight, "straight_flush": e_sf, "wheel": e_wheel}),
                         "flush / straight / straight-flush / wheel predicate disagrees with the hand's category");
                } else if got.as_ref().map(|g| g.4) != Ok(e_or) {
                    advise(rep, json!({"op":"rank5","words":hilo_arr(&w)}), json!({"or_rank_bits": e_or}), "or_rank_bits differs from the OR of the cards' rank flags (mechanism, not named by the statement)");
                }
                continue;
            }
            #[allow(deprecated)]
            let got = guarded(|| {
                (
                    f.is_flush(),
                    f.is_straight(),
                    f.is_straight_flush(),
                    f.is_wheel(),
                    f.or_rank_bits(),
                    f.and_bits(),
                    ckc_rs::evaluate::is_flush(w),
                    ckc_rs::evaluate::or_rank_bits(w),
                    format!("{:?}", f.hand_rank().name),
                )
            });
            match got {
                Ok((fl, st, sf, wh, orb, andb, dfl, dor, name)) => {
                    let e_and = w[0] & w[1] & w[2] & w[3] & w[4];
                    if fl != e_flush || st != e_straight || sf != e_sf || wh != e_wheel || dfl != e_flush {
                        viol(rep, json!({"op":"rank5","words":hilo_arr(&w)}),
                             json!({"flush": e_flush, "straight": e_straight, "straight_flush": e_sf, "wheel": e_wheel, "dep_flush": e_flush}),
                             "flush / straight / straight-flush / wheel predicate disagrees with the hand's category");
                    }
                    if dor as u32 != orb {
                        viol(rep, json!({"op":"rank5","words":hilo_arr(&w)}), json!({"dep_or": orb}), "the deprecated free function or_rank_bits disagrees with the method");
                    }
                    // what the category reported by ranking is belongs to C01 / C06; the bit observables are mechanism
                    if name != cls.category || orb != e_or || andb != e_and {
                        advise(rep, json!({"op":"rank5","words":hilo_arr(&w)}),
                               json!({"or_rank_bits": e_or, "and_bits": hilo(e_and), "name": cls.category}),
                               "category reported by ranking / or_rank_bits / and_bits drift (not what C13 states)");
                    }
                }
                Err(_) => viol(rep, json!({"op":"rank5","words":hilo_arr(&w)}), json!({"flush": e_flush}), "predicate unwound"),
            }
        }
        rep.eval(2 * 9 + 118 * 5);
        if ctr & 0xFFFF_FFFF == 3 && (ctr >> 32) % 250 == 0 {
            rep.sample(json!({"words": hilo_arr(&canon), "category": cls.category, "flush": e_flush, "straight": e_straight, "wheel": e_wheel}));
        }
    });
    rep.distinct(choose(52, 5));
    rep.space("five-card subsets of the deck x all 120 slot orders (all observables on two orders, the four predicates and the rank bits on all)", true, choose(52, 5) * 120);
}

pub fn c08(o: &Oracle, thorough: bool, seed: u64, rep: &Report) {
    use ckc_rs::{PokerCard, Shifty};
    // card level: 52 cards and blank
    for c in &o.cards {
        let got = guarded(|| (c.w.shift_suit(), format!("{:?}", c.w.next_suit()), c.w.shift_suit().shift_suit().shift_suit().shift_suit()));
        let ok = got == Ok((c.shift, c.next_suit.clone(), c.w));
        if !ok {
            viol(rep, json!({"op":"shift_word","w":hilo(c.w)}), json!({"res": hilo(c.shift), "next_suit": c.next_suit}), "card shift is not the rank-preserving 4-cycle S>H>D>C>S");
        }
        rep.eval(3);
    }
    if guarded(|| 0u32.shift_suit()) != Ok(0) {
        viol(rep, json!({"op":"shift_word","w":hilo(0)}), json!({"res": hilo(0)}), "blank does not stay blank");
    }
    rep.space("52 cards and blank", true, 53);

    // five-card hands under all 24 suit relabellings (value unchanged, impl vs impl and vs oracle)
    let sigmas = permutations(4);
    // deck index of (rank, suit)
    let di = |r: usize, s: usize| (3 - s) * 13 + (12 - r);
    for c in &o.cards {
        assert_eq!(di(c.rank, c.suit), c.i);
    }
    let fstride: u64 = if thorough { 1 } else { 1 };
    par_subsets(5, |idx, ctr| {
        if fstride > 1 && mix(seed, ctr) % fstride != 0 {
            return;
        }
        let base = words5(o, idx);
        let exp = o.ord5[colex_rank(idx)];
        let v0 = guarded(|| rank_value(&Hand::from_words(&base)));
        for sg in &sigmas {
            let mut w = [0u32; 5];
            for k in 0..5 {
                let c = &o.cards[idx[k]];
                w[k] = o.cards[di(c.rank, sg[c.suit])].w;
            }
            let v = guarded(|| rank_value(&Hand::from_words(&w)));
            // code against code: what the value is belongs to C01
            if v0.is_ok() && v != v0 {
                viol(rep, json!({"op":"rank5","words":hilo_arr(&w)}), json!({"value": v0.clone().unwrap_or(exp)}), "value changes under a relabelling of the suits");
            }
        }
        rep.eval(24);
    });
    rep.distinct(choose(52, 5));
    rep.space("five-card hands x 24 suit relabellings", true, choose(52, 5) * 24);

    // six / seven-card hands under the three non-trivial shifts, via the containers' shift_suit
    for &n in &[6usize, 7usize] {
        let stride: u64 = if thorough { 1 } else if n == 6 { 4 } else { 8 };
        let hands = AtomicU64::new(0);
        par_subsets(n, |idx, ctr| {
            if stride > 1 && mix(seed ^ 8, ctr) % stride != 0 {
                return;
            }
            hands.fetch_add(1, Ordering::Relaxed);
            let w = o.words(idx);
            let mut h = Hand::from_words(&w);
            let v0 = guarded(|| rank_value(&h));
            let vv0 = guarded(|| rank_value_validated(&h));
            let mut cur = w.clone();
            for _ in 0..3 {
                let nh = match guarded(|| h.shift_suit()) {
                    Ok(x) => x,
                    Err(_) => {
                        viol(rep, json!({"op":"shift_hand","pre":hilo_arr(&cur)}), json!({}), "shift unwound");
                        return;
                    }
                };
                let expw: Vec<u32> = cur.iter().map(|x| o.cards[o.word_to_card[x]].shift).collect();
                if nh.to_arr() != expw {
                    viol(rep, json!({"op":"shift_hand","pre":hilo_arr(&cur)}), json!({"res": hilo_arr(&expw)}), "hand shift is not the slot-wise card shift");
                }
                let v = guarded(|| rank_value(&nh));
                let vv = guarded(|| rank_value_validated(&nh));
                if vv != vv0 {
                    viol(rep, json!({"op":"rankn","words":hilo_arr(&nh.to_arr())}), json!({"v_validated": vv0.clone().unwrap_or(0)}), "validated value changes under suit shifting");
                }
                if v != v0 {
                    viol(rep, json!({"op":"rankn","words":hilo_arr(&nh.to_arr())}), json!({"value": v0.clone().unwrap_or(0)}), "value changes under suit shifting");
                }
                h = nh;
                cur = expw;
            }
            rep.eval(6);
        });
        let hn = hands.load(Ordering::Relaxed);
        rep.distinct(hn);
        rep.space(&format!("{}-card hands x 3 shifts", n), hn == choose(52, n), hn);
    }

    // slot-wise clause for every container size over {cards, blank}
    let mut rng = Rng::new(seed ^ 0x5417);
    let reps = if thorough { 200_000 } else { 20_000 };
    for n in 2..=7usize {
        for _ in 0..reps {
            let w: Vec<u32> = (0..n).map(|_| { let k = rng.below(53) as usize; if k == 52 { 0 } else { o.cards[k].w } }).collect();
            // slot-wise on what the container holds (that it holds what it was given is C19's statement)
            let held = match guarded(|| Hand::from_words(&w).to_arr()) {
                Ok(x) if x.iter().all(|c| *c == 0 || o.word_to_card.contains_key(c)) => x,
                _ => continue,
            };
            let expw: Vec<u32> = held.iter().map(|x| if *x == 0 { 0 } else { o.cards[o.word_to_card[x]].shift }).collect();
            let got = guarded(|| Hand::from_words(&w).shift_suit().to_arr());
            if got != Ok(expw.clone()) {
                viol(rep, json!({"op":"shift_hand","pre":hilo_arr(&w)}), json!({"res": hilo_arr(&expw)}), "hand shift is not the slot-wise card shift");
            }
            rep.eval(1);
        }
    }
    rep.space("seeded hands of sizes 2..7 over {cards, blank} (slot-wise clause)", false, reps * 6);
}

fn sym_word(o: &Oracle, k: usize) -> u32 {
    if k == 52 {
        0
    } else {
        o.cards[k].w
    }
}

/// All ranking entry points of a 5/6/7-slot hand; Err(..) if anything unwound.
fn all_entries(w: &[u32]) -> Result<(u16, u16, u16, u16, u16, String, String), String> {
    guarded(|| {
        let h = Hand::from_words(w);
        let hr = hand_rank(&h);
        let hv = hand_rank_validated(&h);
        let r = (
            rank_value(&h),
            hr.value,
            rank_value_and_hand(&h).value,
            rank_value_validated(&h),
            if hv == ckc_rs::hand_rank::HandRank::from(hv.value) { hv.value } else { u16::MAX },
            format!("{:?}", hr.name),
            format!("{:?}", hr.class),
        );
        if w.len() == 5 {
            let _ = ckc_rs::evaluate::five_cards([w[0], w[1], w[2], w[3], w[4]]);
        }
        r
    })
}

fn c05_check(o: &Oracle, rep: &Report, w: &[u32]) {
    let _ = o;
    match all_entries(w) {
        Ok((a, b, c, d, e, name, class)) => {
            if w.len() == 5 && w.contains(&0) {
                if a != 0 || b != 0 || c != 0 || d != 0 || e != 0 || name != "Invalid" || class != "Invalid" {
                    viol(rep, json!({"op":"rank5","words":hilo_arr(w)}), json!({"value": 0, "v_value": 0, "v_rank": 0, "v_validated": 0, "v_rank_validated": 0, "name": "Invalid", "class": "Invalid", "name_validated": "Invalid", "class_validated": "Invalid"}),
                         "a five-slot hand containing a blank is given a real rank");
                }
            }
        }
        Err(_) => {
            let op = if w.len() == 5 { "rank5" } else { "rankn" };
            viol(rep, json!({"op":op,"words":hilo_arr(w)}), json!({"name_not": "panic"}), "ranking a card-or-blank hand unwound");
        }
    }
}

pub fn c05(o: &Oracle, thorough: bool, seed: u64, rep: &Report) {
    // five slots: all multisets over {52 cards, blank}; thorough: all 53^5 ordered arrays
    let count = AtomicU64::new(0);
    if !thorough {
        par_chunks(53, |first| {
            for_each_multiset_with_first(53, 5, first, |m| {
                let w: Vec<u32> = m.iter().map(|&k| sym_word(o, k)).collect();
                c05_check(o, rep, &w);
                // and one rotated order, so the blank is not always last
                let r: Vec<u32> = (0..5).map(|k| w[(k + 1 + (m[0] % 4)) % 5]).collect();
                c05_check(o, rep, &r);
                count.fetch_add(1, Ordering::Relaxed);
            });
        });
        let c = count.load(Ordering::Relaxed);
        rep.eval(c * 2 * 6);
        rep.distinct(c);
        rep.space("five-slot multisets over {52 cards, blank}", true, c);
    } else {
        par_chunks(53 * 53, |ab| {
            let (a, b) = (ab / 53, ab % 53);
            let mut w = [sym_word(o, a), sym_word(o, b), 0, 0, 0];
            for c in 0..53 {
                w[2] = sym_word(o, c);
                for d in 0..53 {
                    w[3] = sym_word(o, d);
                    for e in 0..53 {
                        w[4] = sym_word(o, e);
                        c05_check(o, rep, &w);
                    }
                }
            }
            count.fetch_add(53 * 53 * 53, Ordering::Relaxed);
        });
        let c = count.load(Ordering::Relaxed);
        rep.eval(c * 6);
        rep.distinct(c);
        rep.space("five-slot ordered arrays over {52 cards, blank}", true, c);
    }
    // six and seven slots: multisets, complete in the thorough tier, a seeded stride otherwise
    for &n in &[6usize, 7usize] {
        let stride: u64 = if thorough { 1 } else if n == 6 { 8 } else { 64 };
        let cnt = AtomicU64::new(0);
        par_chunks(53, |first| {
            let mut local = 0u64;
            for_each_multiset_with_first(53, n, first, |m| {
                local += 1;
                let blanks = m.iter().filter(|&&k| k == 52).count();
                let mut maxrep = 1;
                let mut run = 1;
                for k in 1..n {
                    if m[k] == m[k - 1] {
                        run += 1;
                        maxrep = maxrep.max(run);
                    } else {
                        run = 1;
                    }
                }
                let structured = blanks >= 3 || maxrep >= 4;
                if stride > 1 && !structured && mix(seed ^ ((first as u64) << 40), local) % stride != 0 {
                    return;
                }
                let w: Vec<u32> = m.iter().map(|&k| sym_word(o, k)).collect();
                c05_check(o, rep, &w);
                cnt.fetch_add(1, Ordering::Relaxed);
            });
        });
        let c = cnt.load(Ordering::Relaxed);
        rep.eval(c * 5);
        rep.distinct(c);
        rep.space(&format!("{}-slot multisets over {{52 cards, blank}}", n), stride == 1, c);
    }
    // every placement of blanks among the slots (2^n placements) x several card fills, with and without
    // repeated cards; and a seeded shuffle of sampled multisets (sorted presentation keeps equal symbols
    // adjacent, which an order-sensitive slip would never see)
    {
        let mut rng = Rng::new(seed ^ 0xB1A);
        let mut placed = 0u64;
        for n in 5..=7usize {
            for mask in 0..(1u32 << n) {
                for fill in 0..40 {
                    let pool = 1 + fill % 7;
                    let cards: Vec<u32> = (0..pool).map(|_| o.cards[rng.below(52) as usize].w).collect();
                    let w: Vec<u32> = (0..n).map(|k| if mask & (1 << k) != 0 { 0 } else { cards[rng.below(pool as u64) as usize] }).collect();
                    c05_check(o, rep, &w);
                    placed += 1;
                }
            }
        }
        let shuffles = if thorough { 4_000_000 } else { 400_000 };
        for k in 0..shuffles {
            let n = 5 + (k % 3) as usize;
            let mut w: Vec<u32> = (0..n).map(|_| sym_word(o, rng.below(53) as usize)).collect();
            if k % 2 == 0 {
                let j = rng.below(n as u64) as usize;
                w[j] = 0;
                let i = rng.below(n as u64) as usize;
                let c = w[rng.below(n as u64) as usize];
                w[i] = c;
            }
            c05_check(o, rep, &w);
        }
        rep.eval((placed + shuffles) * 5);
        rep.space("every placement of blanks among 5/6/7 slots x 40 card fills; seeded ordered arrays over {52 cards, blank}", false, placed + shuffles);
    }
    // the public product-search helper: returns normally for every key class
    let mut keys: Vec<u64> = vec![0, 1, 47, 48, 49, u64::MAX, u64::MAX - 1, (u32::MAX as u64), (u32::MAX as u64) + 1, 1 << 63];
    for p in &o.products {
        keys.push(*p as u64);
        keys.push(*p as u64 - 1);
        keys.push(*p as u64 + 1);
    }
    for k in 0..=100_000u64 {
        keys.push(k);
    }
    let primes: Vec<u64> = {
        let mut v: Vec<u64> = o.cards.iter().map(|c| c.prime as u64).collect();
        v.push(0);
        v.sort_unstable();
        v.dedup();
        v
    };
    for_each_multiset_all(primes.len(), 5, |m| keys.push(m.iter().map(|&i| primes[i]).product()));
    for b in 0..64 {
        keys.push(1u64 << b);
        keys.push((1u64 << b).wrapping_sub(1));
        keys.push((1u64 << b).wrapping_add(1));
    }
    let mut rng = Rng::new(seed ^ 0xF1AD);
    for _ in 0..200_000 {
        keys.push(rng.next() >> (rng.below(64) as u32));
    }
    let nk = keys.len() as u64;
    for k in keys {
        let r = guarded(|| Five::find_in_products(k as usize));
        match r {
            Err(_) => viol(rep, json!({"op":"find","key":limbs(k)}), json!({"res_not": -1}), "find_in_products unwound"),
            Ok(i) => {
                // advisory: index semantics (index of the key, 0 when absent)
                let e = o.products.binary_search(&(k.min(u32::MAX as u64) as u32)).ok().filter(|_| k <= u32::MAX as u64).unwrap_or(0);
                if i != e {
                    advise(rep, json!({"op":"find","key":limbs(k)}), json!({"res": e}), "find_in_products index differs from the ideal table");
                }
            }
        }
    }
    rep.eval(nk);
    rep.space("product-search keys: every table entry and its neighbours, 0..=100000, all five-prime products over {0,2..41}, powers of two +-1, extremes, seeded u64", false, nk);
    rep.sample(json!({"five_blank": hilo_arr(&[0,0,0,0,0]), "expected": {"value": 0, "name": "Invalid"}}));
}

pub fn for_each_multiset_all<F: FnMut(&[usize])>(n: usize, k: usize, mut f: F) {
    for first in 0..n {
        for_each_multiset_with_first(n, k, first, |m| f(m));
    }
}
