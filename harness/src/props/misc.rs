//! C06, C07, C17, C18: hand-rank records, their order, the Chen score, deck and tables.

use super::*;
use ckc_rs::cards::two::Two;
use ckc_rs::deck::{Deck, POKER_DECK};
use ckc_rs::hand_rank::HandRank;
use ckc_rs::Shifty;
use std::cmp::Ordering as O;

pub fn c06(o: &Oracle, thorough: bool, seed: u64, rep: &Report) {
    // every 16-bit value
    for v in 0..=65535u32 {
        let ev = json!({"op":"hr_from","v":v});
        let got = observe(&ev);
        let real = v >= 1 && v <= o.n_classes as u32;
        let exp = json!({"value": v, "name": o.name_of(v as u16), "class": o.class_of(v as u16), "dname": o.name_of(v as u16),
                         "dclass": o.class_of(v as u16), "invalid": !real, "consistent": true});
        if got["is_default"] != json!(v == 0) {
            advise(rep, ev.clone(), json!({"is_default": v == 0}), "HandRank::default() is no longer the conversion of 0");
        }
        for (k, e) in exp.as_object().unwrap() {
            if &got[k] != e {
                viol(rep, ev.clone(), exp.clone(), "converted hand rank does not describe the poker class whose ordinal is the value");
                break;
            }
        }
        rep.eval(8);
        if v == 200 || v == 7463 {
            rep.sample(got);
        }
    }
    rep.space("all 65,536 values", true, 65536);
    // every five-card hand: (value, category, class) computed from the cards' class
    par_subsets(5, |idx, _| {
        let w = o.words(idx);
        let cls = &o.classes[o.ord5[colex_rank(idx)] as usize - 1];
        let h = Hand::from_words(&w);
        let got = guarded(|| {
            let a = hand_rank(&h);
            let b = hand_rank_validated(&h);
            (a.value, format!("{:?}", a.name), format!("{:?}", a.class), b == a, a.is_a_valid_hand_rank())
        });
        if got != Ok((cls.ordinal, cls.category.clone(), cls.class.clone(), true, true)) {
            viol(rep, json!({"op":"rank5","words":hilo_arr(&w)}), json!({"value": cls.ordinal, "name": cls.category, "class": cls.class}),
                 "rank reported for a hand does not describe the hand's actual cards");
        }
    });
    rep.eval(choose(52, 5) * 5);
    rep.space("all five-card hands: reported value, category and class vs the class of the cards", true, choose(52, 5));
    // six / seven sampled
    for &n in &[6usize, 7usize] {
        let stride: u64 = if thorough { 4 } else if n == 6 { 16 } else { 128 };
        let cnt = AtomicU64::new(0);
        par_subsets(n, |idx, ctr| {
            if mix(seed ^ 6, ctr) % stride != 0 {
                return;
            }
            cnt.fetch_add(1, Ordering::Relaxed);
            let w = o.words(idx);
            let v = o.best_of(idx);
            let h = Hand::from_words(&w);
            let got = guarded(|| {
                let a = hand_rank(&h);
                (a.value, format!("{:?}", a.name), format!("{:?}", a.class))
            });
            if got != Ok((v, o.name_of(v).to_string(), o.class_of(v).to_string())) {
                viol(rep, json!({"op":"rankn","words":hilo_arr(&w)}), json!({"value": v, "name": o.name_of(v), "class": o.class_of(v)}),
                     "rank reported for a hand does not describe the best hand in its cards");
            }
        });
        let c = cnt.load(Ordering::Relaxed);
        rep.eval(c * 3);
        rep.space(&format!("sampled {}-card hands", n), false, c);
    }
    // the rank a container reports is always the conversion of its value -- also for non-hands (repeated
    // cards, blanks), and through both rank-returning entry points: Invalid for both exactly when 0
    let bad = AtomicU64::new(0);
    let cnt = AtomicU64::new(0);
    par_chunks(53, |first| {
        for n in 5..=7usize {
            let mut local = 0u64;
            for_each_multiset_with_first(53, n, first, |m| {
                local += 1;
                if n > 5 && mix(seed ^ 0x66, local ^ ((first as u64) << 40)) % (if n == 6 { 16 } else { 128 }) != 0 {
                    return;
                }
                let mut w: Vec<u32> = m.iter().map(|&k| if k == 52 { 0 } else { o.cards[k].w }).collect();
                // not always sorted: rotate by a seeded amount
                let r = (mix(seed, local) % n as u64) as usize;
                w.rotate_left(r);
                let h = Hand::from_words(&w);
                let ok = guarded(|| {
                    let a = hand_rank(&h);
                    let b = hand_rank_validated(&h);
                    a == HandRank::from(a.value) && b == HandRank::from(b.value) && a.is_a_valid_hand_rank() && b.is_a_valid_hand_rank()
                        && (a.value == 0) == a.is_invalid() && (b.value == 0) == b.is_invalid()
                });
                cnt.fetch_add(1, Ordering::Relaxed);
                // a call that unwinds reports no rank at all: that is C05's statement, not C06's
                if ok == Ok(false) && bad.fetch_add(1, Ordering::Relaxed) < 5 {
                    let op = if n == 5 { "rank5" } else { "rankn" };
                    viol(rep, json!({"op":op,"words":hilo_arr(&w)}), json!({"consistent_validated": true, "rank_consistent": true}),
                         "a reported rank is not the conversion of its own value (name / class do not describe the value)");
                }
            });
        }
    });
    let c = cnt.load(Ordering::Relaxed);
    rep.eval(c * 2);
    rep.space("five-slot multisets over {52 cards, blank} (all) and sampled six/seven-slot ones: reported ranks are conversions of their value", false, c);
    rep.distinct(65536 + choose(52, 5) + c);
}

pub fn c07(o: &Oracle, thorough: bool, _seed: u64, rep: &Report) {
    // the value set
    let mut vals: Vec<u16> = if thorough { (0..=65535u32).map(|v| v as u16).collect() } else { (0..=7600u16).collect() };
    if !thorough {
        for b in 0..16 {
            for d in [-1i32, 0, 1] {
                let v = (1i32 << b) + d;
                if v >= 0 && v <= 65535 {
                    vals.push(v as u16);
                }
            }
        }
        vals.extend([65535u16, 65534, 32768, 10000, 7462, 7463, 7464]);
        vals.sort_unstable();
        vals.dedup();
    }
    let ranks: Vec<HandRank> = vals.iter().map(|v| HandRank::from(*v)).collect();
    // dense positions under the code's own cmp
    let mut order: Vec<usize> = (0..ranks.len()).collect();
    let sorted = guarded(|| {
        order.sort_by(|a, b| ranks[*a].cmp(&ranks[*b]));
        order
    });
    let order = match sorted {
        Ok(x) => x,
        Err(_) => {
            viol(rep, json!({"op":"cmp","a":0,"b":7463}), json!({}), "sorting by the comparison unwound: it is not a total order");
            return;
        }
    };
    let mut pos = vec![0u32; ranks.len()];
    let mut p = 0u32;
    for k in 0..order.len() {
        if k > 0 && ranks[order[k - 1]].cmp(&ranks[order[k]]) != O::Equal {
            p += 1;
        }
        pos[order[k]] = p;
    }
    let n = ranks.len();
    let nclasses = o.n_classes;
    let pair_ok = |i: usize, j: usize| -> bool {
        let (a, b) = (&ranks[i], &ranks[j]);
        let (va, vb) = (vals[i], vals[j]);
        let e = pos[i].cmp(&pos[j]);
        let c = a.cmp(b);
        let ok = c == e
            && a.partial_cmp(b) == Some(e)
            && (a < b) == (e == O::Less)
            && (a <= b) == (e != O::Greater)
            && (a > b) == (e == O::Greater)
            && (a >= b) == (e != O::Less)
            && ((e == O::Equal) == (a == b))
            && ((a == b) == (va == vb));
        // anchors of the statement
        let a_real = va >= 1 && va <= nclasses;
        let b_real = vb >= 1 && vb <= nclasses;
        let anchor = if a_real && b_real {
            c == vb.cmp(&va)
        } else if !a_real && b_real {
            c == O::Less
        } else if a_real && !b_real {
            c == O::Greater
        } else {
            (c == O::Equal) == (va == vb)
        };
        ok && anchor
    };
    par_chunks(n, |i| {
        // one row at a time; if the row fails or unwinds, find the pair
        let row = guarded(|| (0..n).all(|j| pair_ok(i, j)));
        if row != Ok(true) {
            for j in 0..n {
                if guarded(|| pair_ok(i, j)) != Ok(true) {
                    viol(rep, json!({"op":"cmp","a":vals[i],"b":vals[j]}), json!({"lawful": true}),
                         "comparison is not a total order consistent with equality in which stronger is greater and invalid is lowest");
                    break;
                }
            }
        }
    });
    rep.eval((n * n) as u64 * 8);
    rep.distinct((n * n) as u64);
    rep.space("ordered pairs of converted values (every pair checked against an integer key, which settles all triples)", thorough, (n * n) as u64);
    rep.sample(observe(&json!({"op":"cmp","a":0,"b":7463})));
    rep.sample(observe(&json!({"op":"cmp","a":1,"b":7462})));
    // enumerations: adjacent values and all pairs of range starts
    for v in 1..o.n_classes {
        let ev = json!({"op":"enum_cmp","a":v,"b":v + 1});
        let got = observe(&ev);
        let e_name = if o.name_of(v) != o.name_of(v + 1) { "Less" } else { "Equal" };
        let e_class = if o.class_of(v) != o.class_of(v + 1) { "Less" } else { "Equal" };
        if got["name_cmp"] != e_name || got["class_cmp"] != e_class {
            viol(rep, ev, json!({"name_cmp": e_name, "class_cmp": e_class}), "category / class enumeration is not ordered strongest-first in step with the value");
        }
        rep.eval(2);
    }
    rep.space("adjacent value pairs 1..=7462 for both enumerations", true, o.n_classes as u64 - 1);
    for a in &o.ranges {
        for b in &o.ranges {
            let ev = json!({"op":"enum_cmp","a":a.lo,"b":b.lo});
            let got = observe(&ev);
            let e_class = ord_name(a.pos.cmp(&b.pos));
            let ca = o.categories.iter().position(|c| *c == a.category).unwrap();
            let cb = o.categories.iter().position(|c| *c == b.category).unwrap();
            let e_name = ord_name(ca.cmp(&cb));
            if got["name_cmp"] != e_name || got["class_cmp"] != e_class {
                viol(rep, ev, json!({"name_cmp": e_name, "class_cmp": e_class}), "category / class enumeration is not ordered strongest-first in step with the value");
            }
            rep.eval(2);
        }
    }
    rep.space("all pairs of the 309 class ranges", true, (o.ranges.len() * o.ranges.len()) as u64);
    // "sorting by rank, category or class never contradicts sorting by strength": the Invalid member of both
    // enumerations comes after every real one (as an invalid rank compares below every valid one)
    let invalids = [0u16, o.n_classes + 1, 32768, 65535];
    let mut inv_pairs = 0u64;
    for v in 1..=o.n_classes {
        for w in invalids {
            for (a, b, e) in [(v, w, "Less"), (w, v, "Greater")] {
                let ev = json!({"op":"enum_cmp","a":a,"b":b});
                let got = observe(&ev);
                if got["name_cmp"] != e || got["class_cmp"] != e {
                    viol(rep, ev, json!({"name_cmp": e, "class_cmp": e}), "the Invalid category / class does not come after every real one, so sorting by category or class contradicts sorting by rank");
                }
                inv_pairs += 1;
            }
        }
    }
    for a in invalids {
        for b in invalids {
            let ev = json!({"op":"enum_cmp","a":a,"b":b});
            let got = observe(&ev);
            if got["name_cmp"] != "Equal" || got["class_cmp"] != "Equal" {
                viol(rep, ev, json!({"name_cmp": "Equal", "class_cmp": "Equal"}), "two invalid values do not share one category / class");
            }
            inv_pairs += 1;
        }
    }
    rep.eval(inv_pairs * 2);
    rep.space("every real value against four invalid values, both ways, for both enumerations", true, inv_pairs);
}

fn ord_name(o: O) -> &'static str {
    match o {
        O::Less => "Less",
        O::Equal => "Equal",
        O::Greater => "Greater",
    }
}

pub fn c17(o: &Oracle, _thorough: bool, _seed: u64, rep: &Report) {
    let mut n = 0u64;
    for a in &o.cards {
        for b in &o.cards {
            if a.i == b.i {
                continue;
            }
            let suited = a.suit == b.suit;
            let (score, gap) = o.chen[&(a.rank, b.rank, suited)];
            let pair = a.rank == b.rank;
            let high = if (a.rank, a.suit) > (b.rank, b.suit) { a.w } else { b.w };
            let ev = json!({"op":"chen","a":hilo(a.w),"b":hilo(b.w)});
            let got = observe(&ev);
            let mut exp = json!({"score": score, "gap": gap, "pair": pair, "suited": suited, "high": hilo(high)});
            if !pair {
                exp["connector"] = json!(gap == 0);
                exp["suited_connector"] = json!(gap == 0 && suited);
            }
            for (k, e) in exp.as_object().unwrap() {
                if &got[k] != e {
                    viol(rep, ev.clone(), exp.clone(), "starting-hand score or helper differs from the Chen formula");
                    break;
                }
            }
            if pair && (got["connector"] != json!(true)) {
                advise(rep, ev.clone(), json!({"connector": true}), "pocket pair no longer counted as a connector (the code's definition)");
            }
            // invariance under suit shifting
            // the shifted cards are taken from the specification (shifting itself is C08's business)
            let t = Two::new(a.shift, b.shift);
            let sh = guarded(|| t.chen_formula() as i64);
            if sh != Ok(score as i64) {
                viol(rep, json!({"op":"chen","a":hilo(a.shift),"b":hilo(b.shift)}), json!({"score": score}), "score changes under suit shifting");
            }
            n += 1;
            if n == 1000 {
                rep.sample(got);
            }
        }
    }
    rep.eval(n * 9);
    rep.distinct(n);
    rep.space("all 52 x 51 ordered pairs of distinct cards", true, n);
    for c in &o.cards {
        let got = observe(&json!({"op":"acc","w":hilo(c.w)}));
        if got["chen2"] != json!(c.chen2) || got["chen_exact"] != json!(true) {
            viol(rep, json!({"op":"acc","w":hilo(c.w)}), json!({"chen2": c.chen2, "chen_exact": true}), "per-card Chen points differ");
        }
        rep.eval(1);
    }
    rep.space("per-card points of all 52 cards", true, 52);
}

pub fn c18(o: &Oracle, _thorough: bool, seed: u64, rep: &Report) {
    // deck
    let deck = POKER_DECK.arr();
    let mut seen = std::collections::HashSet::new();
    for c in &o.cards {
        if deck[c.i] != c.w {
            viol(rep, json!({"op":"deck"}), json!({}), "deck does not list the cards spades, hearts, diamonds, clubs, each ace down to deuce");
        }
        seen.insert(deck[c.i]);
        rep.eval(1);
    }
    if seen.len() != 52 || Deck::len() != 52 {
        viol(rep, json!({"op":"deck"}), json!({}), "deck does not list each of the 52 cards exactly once");
    }
    let mut idxs: Vec<u64> = (0..60).collect();
    idxs.extend([63, 64, 65, 255, 256, 1 << 16, (1 << 32) - 1, 1 << 32, (1u64 << 32) + 51, u64::MAX, u64::MAX - 1, 1 << 63]);
    for b in 0..64 {
        idxs.push(1 << b);
        idxs.push((1u64 << b) + 3);
    }
    // small offsets from every small multiple of every power 2^8, 2^16, ... 2^56 (an index that is narrowed,
    // or divided and then narrowed, wraps at such multiples: 13 * 2^32, 52 * 2^32, 3 * 2^16, ...)
    for k in 0..56u64 {
        for c in 1..=64u64 {
            for s in [8u32, 16, 24, 32, 40, 48, 56] {
                idxs.push((c << s).wrapping_add(k));
                idxs.push((c << s).wrapping_sub(k + 1));
            }
        }
    }
    let mut rng = Rng::new(seed ^ 0xDEC);
    for _ in 0..10_000 {
        idxs.push(rng.next() >> rng.below(64));
    }
    for _ in 0..10_000 {
        // seeded: an in-range index plus a seeded multiple of 2^32 or 2^16
        let hi = rng.next() >> rng.below(64);
        idxs.push((hi << 32).wrapping_add(rng.below(52)));
        idxs.push((hi << 16).wrapping_add(rng.below(52)));
    }
    let nidx = idxs.len() as u64;
    for i in idxs {
        let e = if i < 52 { o.cards[i as usize].w } else { 0 };
        if guarded(|| Deck::get(i as usize)) != Ok(e) {
            viol(rep, json!({"op":"deck_get","index":limbs(i)}), json!({"res": hilo(e)}), "deck access is not the card in range and blank at or past the end");
        }
        rep.eval(1);
    }
    rep.space("deck index classes: 0..59, powers of two, extremes, offsets 0..55 from every multiple 1..64 of 2^8 .. 2^56, seeded", false, nidx);
    // preset tables as sets, higher card first, no duplicates
    for (name, exp) in &o.presets {
        let ev = json!({"op":"preset","name":name});
        let got = observe(&ev);
        let pairs: Vec<(u32, u32)> = got["pairs"].as_array().unwrap().iter().map(|p| (from_hilo(&p[0]), from_hilo(&p[1]))).collect();
        let set: std::collections::HashSet<(u32, u32)> = pairs.iter().cloned().collect();
        let eset: std::collections::HashSet<(u32, u32)> = exp.iter().cloned().collect();
        if pairs.len() != exp.len() || set != eset {
            viol(rep, ev, json!({"pairs_as_set": sorted_pairs(exp)}),
                 "preset starting-hand table is not exactly every combination of its description, higher card first, without duplicates");
        }
        rep.eval(pairs.len() as u64);
    }
    rep.space("six preset starting-hand tables, entry by entry", true, o.presets.values().map(|v| v.len() as u64).sum());
    // slot-index tables row by row
    for (name, exp) in [("omaha", &o.comb_omaha), ("six", &o.comb_six), ("seven", &o.comb_seven)] {
        let ev = json!({"op":"table","name":name});
        let got = observe(&ev);
        if got["rows"] != json!(exp) {
            viol(rep, ev, json!({"rows": exp}), "slot-index table does not list every combination exactly once in increasing order");
        }
        rep.eval(exp.len() as u64);
    }
    rep.space("the three slot-index tables, row by row", true, 6 + 6 + 21);
    rep.distinct(52 + nidx + 54 + 33);
    rep.sample(observe(&json!({"op":"table","name":"six"})));
}

fn sorted_pairs(exp: &[(u32, u32)]) -> Value {
    let mut e: Vec<[u32; 2]> = exp.iter().map(|p| [p.0, p.1]).collect();
    e.sort_unstable();
    Value::Array(e.iter().map(|p| hilo_arr(p)).collect())
}
