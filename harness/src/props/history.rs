//! History independence: every observation of the library is a function of its arguments alone, so the
//! same call must give the same (oracle-checked) answer whatever was called before it.  The exhaustive
//! sweeps call each function once per fresh input in a systematic order and on many threads; this probe is
//! the complement: ONE thread, a small recurring pool of inputs, and a long seeded random interleaving of
//! all the entry points, so that every input is seen again and again after different predecessors
//! (a memo, cache or lazily initialised table with a coarse key or a wrong invalidation shows up here).

use super::*;
use ckc_rs::cards::binary_card::{BinaryCard, BC64};
use ckc_rs::cards::five::Five;
use ckc_rs::cards::two::Two;
use ckc_rs::cards::HandRanker;
use ckc_rs::hand_rank::HandRank;
use ckc_rs::{CKCNumber, CardNumber, PokerCard, Shifty};

struct Item {
    words: Vec<u32>,
    valid: bool,
    value: u16,             // oracle value if valid
    card_or_blank: bool,
}

fn make_pool(o: &Oracle, rng: &mut Rng, size: usize) -> Vec<Item> {
    let mut pool = vec![];
    while pool.len() < size {
        let n = 5 + rng.below(3) as usize;
        let kind = rng.below(10);
        let mut idx: Vec<usize> = {
            let mut d: Vec<usize> = (0..52).collect();
            // half of the pool from a narrow window so that hands share rank patterns, suits and products
            if kind < 5 {
                let start = rng.below(40) as usize;
                d = (start..start + 12).collect();
            }
            rng.shuffle(&mut d);
            d.into_iter().take(n).collect()
        };
        let mut words: Vec<u32> = idx.iter().map(|&i| o.cards[i].w).collect();
        let mut valid = true;
        if kind == 8 {
            let j = rng.below(n as u64) as usize;
            words[j] = 0;
            valid = false;
        } else if kind == 9 {
            let (a, b) = (rng.below(n as u64) as usize, rng.below(n as u64) as usize);
            if a != b {
                words[a] = words[b];
                valid = false;
            }
        }
        let value = if valid {
            idx.sort_unstable();
            o.best_of(&idx)
        } else {
            0
        };
        pool.push(Item { words, valid, value, card_or_blank: true });
    }
    // the same cards again in other slot orders and shifted to the next suit
    let extra: Vec<Item> = pool
        .iter()
        .take(size / 3)
        .map(|it| {
            let mut w = it.words.clone();
            rng.shuffle(&mut w);
            Item { words: w, valid: it.valid, value: it.value, card_or_blank: true }
        })
        .collect();
    pool.extend(extra);
    pool
}

/// Ranking entry points of Five / Six / Seven interleaved on a recurring pool.  Every kind of call is MADE
/// whatever property is being checked (the calls are each other's history); a result is JUDGED only when the
/// statement of property `id` covers it:
///   C01 values of valid five-card hands (all six entry points)      C02 values of valid six/seven-card hands
///   C03 the reported hand re-ranks to the reported value            C04 validated = unvalidated (valid) / 0 (not valid)
///   C05 card-or-blank hands return normally; a five with a blank is 0
///   C06 the rank record carries the value and is the conversion of it
///   C08 value of the shifted hand = value of the hand               C13 the four predicates of valid fives
pub fn ranking_history(o: &Oracle, id: &str, seed: u64, rep: &Report, rounds: u64) {
    let mut rng = Rng::new(seed ^ 0x415);
    let pool = make_pool(o, &mut rng, 240);
    let mut n = 0u64;
    let mut judged = 0u64;
    for _ in 0..rounds {
        let it = &pool[rng.below(pool.len() as u64) as usize];
        let h = Hand::from_words(&it.words);
        let which = rng.below(12);
        let len = it.words.len();
        let blank5 = len == 5 && it.words.contains(&0);
        let op = if len == 5 { "rank5" } else { "rankn" };
        n += 1;
        if which == 11 {
            // the four predicates (C13) on valid five-card items, against the class of the cards
            if it.valid && len == 5 {
                let cls = &o.classes[it.value as usize - 1];
                let f = Five::from([it.words[0], it.words[1], it.words[2], it.words[3], it.words[4]]);
                let e = (cls.flush, cls.category == "Straight" || cls.category == "StraightFlush", cls.category == "StraightFlush", cls.ranks == [12, 3, 2, 1, 0]);
                let got = guarded(|| (f.is_flush(), f.is_straight(), f.is_straight_flush(), f.is_wheel()));
                if id == "C13" {
                    judged += 1;
                    if got != Ok(e) {
                        rep.violation(json!({"property": rep.property, "why": "in a long single-threaded interleaving on a recurring pool of hands, the flush / straight / straight-flush / wheel predicates of a hand disagreed with its category: the result depends on the calls made before",
                            "event": {"op": "rank5", "words": hilo_arr(&it.words)}, "expected": {"flush": e.0, "straight": e.1, "straight_flush": e.2, "wheel": e.3}, "note": "history-dependent"}));
                        break;
                    }
                }
            }
            continue;
        }
        // make the call
        let got: Result<i64, String> = guarded(|| match which {
            9 | 10 => {
                // the public product-search helper, with keys related to the pool
                let key = match rng.below(3) {
                    0 => 0usize,
                    1 => if len == 5 { Five::from([it.words[0], it.words[1], it.words[2], it.words[3], it.words[4]]).multiply_primes() } else { 48 },
                    _ => (rng.next() >> rng.below(64)) as usize,
                };
                let _ = Five::find_in_products(key);
                0
            }
            0 => rank_value(&h) as i64,
            1 => hand_rank(&h).value as i64,
            2 => rank_value_and_hand(&h).value as i64,
            3 => rank_value_validated(&h) as i64,
            4 => hand_rank_validated(&h).value as i64,
            5 => if len == 5 { ckc_rs::evaluate::five_cards([it.words[0], it.words[1], it.words[2], it.words[3], it.words[4]]) as i64 } else { rank_value_validated(&h) as i64 },
            6 => rank_value(&h.shift_suit()) as i64,
            7 => {
                // the reported hand re-ranks to the reported value (1 = yes)
                let r = rank_value_and_hand(&h);
                (Five::from(r.witness).hand_rank_value() == r.value) as i64
            }
            _ => {
                let hr = hand_rank(&h);
                let hv = hand_rank_validated(&h);
                (hr == HandRank::from(hr.value) && hv == HandRank::from(hv.value)) as i64
            }
        });
        // what the statement of `id` says about it (None: nothing)
        let expected: Option<i64> = match (id, which) {
            ("C01", 0..=5) if it.valid && len == 5 => Some(it.value as i64),
            ("C02", 0..=5) if it.valid && len >= 6 => Some(it.value as i64),
            ("C03", 7) if it.valid => Some(1),
            ("C04", 3..=5) => {
                if it.valid {
                    // the same value as unvalidated ranking (asked now), which is not 0 for a hand
                    match guarded(|| rank_value(&h)) {
                        Ok(v) if v != 0 => Some(v as i64),
                        _ => Some(-3),
                    }
                } else {
                    Some(0)
                }
            }
            ("C05", 0..=5) if blank5 => Some(0),
            ("C06", 1) | ("C06", 4) if it.valid => Some(it.value as i64),
            ("C06", 8) => Some(1),
            ("C08", 6) if it.valid => guarded(|| rank_value(&h)).ok().map(|v| v as i64),
            _ => None,
        };
        let unwound_matters = expected.is_some() || (id == "C05" && it.card_or_blank);
        let bad = match (&got, expected) {
            (Err(_), _) if unwound_matters => Some(("unwound", json!(-1))),
            (Ok(g), Some(e)) if *g != e => Some(("value", json!(g))),
            _ => None,
        };
        if expected.is_some() || (id == "C05" && it.card_or_blank) {
            judged += 1;
        }
        if let Some((what, got)) = bad {
            rep.violation(json!({"property": rep.property, "why": format!("in a long single-threaded interleaving of ranking calls on a recurring pool of hands, entry point #{} gave {} ({}) for a hand whose value is {}: the result depends on the calls made before", which, got, what, it.value),
                "event": {"op": op, "words": hilo_arr(&it.words)}, "expected": if it.valid { json!({"value": it.value, "v_validated": it.value}) } else { json!({"v_validated": 0}) },
                "note": "history-dependent: the single call may pass on replay; see `why`"}));
            if rep.violations_total.load(std::sync::atomic::Ordering::Relaxed) > 5 {
                break;
            }
        }
    }
    rep.eval(n);
    rep.space(&format!("history probe: one thread, 320 recurring five/six/seven-slot hands (valid, blank, repeated; shuffled), random interleaving of twelve kinds of ranking call; {} of the calls fall under this property's statement and were judged", judged), false, n);
}

/// Card-level and set-level pure functions on a recurring pool of words / sets, interleaved.
/// Every kind of call is made whatever property is being checked; a result is judged only when the statement of
/// property `id` covers that kind of call (see `owned` below).
pub fn words_history(o: &Oracle, id: &str, seed: u64, rep: &Report, rounds: u64) {
    // kind of call -> the properties whose statement covers it
    let owned = |which: u64| -> bool {
        let owners: &[&str] = match which {
            0 => &["C10", "C04"],   // card recogniser
            1 | 3 => &["C14"],      // word <-> bit
            2 => &["C08"],          // card shift
            4 | 5 | 15 => &["C15"], // count / validity, peel, fold-in / has / single
            6 | 9 => &["C17"],      // Chen score and helpers
            7 | 12 => &["C20"],     // strip / marks (cards and marked cards only)
            8 => &["C16"],          // two-card hand from a set
            10 => &["C18"],         // deck access
            11 => &["C10", "C20"],  // accessors on a card / a marked card
            13 => &["C10"],         // construction
            14 => &["C07"],         // comparison of converted ranks
            _ => &[],
        };
        owners.contains(&id)
    };
    let mut judged = 0u64;
    let mut rng = Rng::new(seed ^ 0x7715);
    let mut words: Vec<u32> = o.cards.iter().map(|c| c.w).collect();
    words.push(0);
    for _ in 0..60 {
        let c = o.cards[rng.below(52) as usize].w;
        words.push(match rng.below(5) {
            0 => c | (1 << (29 + rng.below(3))),
            1 => c ^ (1 << rng.below(32)),
            2 => u32::MAX,
            3 => rng.below(100) as u32,
            _ => rng.u32(),
        });
    }
    let sets: Vec<u64> = (0..120)
        .map(|k| match k % 4 {
            0 => 1u64 << rng.below(64),
            1 => rng.next() & rng.next() & o.all_bits,
            2 => rng.next() & rng.next(),
            _ => (1u64 << rng.below(52)) | (1u64 << rng.below(52)),
        })
        .collect();
    let is_card = |w: u32| o.word_to_card.contains_key(&w);
    let mut n = 0u64;
    for _ in 0..rounds {
        let w = words[rng.below(words.len() as u64) as usize];
        let x = sets[rng.below(sets.len() as u64) as usize];
        let which = rng.below(16);
        let w2 = words[rng.below(words.len() as u64) as usize];
        let card_like = o.word_to_card.contains_key(&(w & o.flag_word("strip_mask")));
        let ok = guarded(|| match which {
            8 => {
                // two-card hand from a set (C16), by the rules
                use ckc_rs::cards::two::Two;
                let n = x.count_ones();
                match Two::try_from(x) {
                    Ok(t) => {
                        let hi = 63 - x.leading_zeros();
                        n == 2 && hi < 52 && t.to_arr()[0] == o.cards.iter().find(|c| c.bit == hi).unwrap().w
                            && t.to_arr()[1] == o.cards.iter().find(|c| c.bit == x.trailing_zeros()).unwrap().w && BinaryCard::from_two(t) == x
                    }
                    Err(e) => {
                        let e = format!("{:?}", e);
                        if n < 2 { e == "NotEnoughCards" } else if n > 2 { e == "TooManyCards" } else { e == "InvalidBinaryFormat" && 63 - x.leading_zeros() >= 52 }
                    }
                }
            }
            9 => {
                // Chen score of two pool words when both are distinct cards (either order, related suits)
                let (a, b) = (w, w2);
                if is_card(a) && is_card(b) && a != b {
                    let (ca, cb) = (&o.cards[o.word_to_card[&a]], &o.cards[o.word_to_card[&b]]);
                    let e = o.chen[&(ca.rank, cb.rank, ca.suit == cb.suit)];
                    let t = Two::new(a, b);
                    t.chen_formula() as i32 == e.0 && t.get_gap() == e.1 && t.is_suited() == (ca.suit == cb.suit) && t.is_pocket_pair() == (ca.rank == cb.rank)
                } else {
                    true
                }
            }
            10 => {
                // deck access on related indexes
                use ckc_rs::deck::Deck;
                let i = (w as u64) % 64;
                let idx = match x % 4 { 0 => i, 1 => i + 52, 2 => i + (1u64 << 32), _ => u64::MAX - i };
                Deck::get(idx as usize) == if idx < 52 { o.cards[idx as usize].w } else { 0 }
            }
            11 => {
                // accessors on a card, possibly marked
                match o.word_to_card.get(&(w & o.flag_word("strip_mask"))) {
                    Some(_) if (id == "C10") != is_card(w) => true, // C10 speaks of cards, C20 of marked cards
                    Some(&i) if id == "C20" => {
                        // marked: reads the same as the card itself (code against code)
                        let c = o.cards[i].w;
                        w.get_rank_prime() == c.get_rank_prime() && w.get_rank_bit() == c.get_rank_bit() && w.get_suit_bit() == c.get_suit_bit()
                            && w.get_card_rank() == c.get_card_rank() && w.get_card_suit() == c.get_card_suit()
                            && w.get_rank_char() == c.get_rank_char() && w.get_suit_char() == c.get_suit_char()
                    }
                    Some(&i) => {
                        let c = &o.cards[i];
                        w.get_rank_prime() == c.prime && w.get_rank_bit() == c.rank_bit && w.get_suit_bit() == c.suit_bit
                            && format!("{:?}", w.get_card_rank()) == c.rank_name && format!("{:?}", w.get_card_suit()) == c.suit_name
                            && w.get_rank_char() == c.rank_char && w.get_suit_char() == c.suit_char
                    }
                    None => true,
                }
            }
            // marking: C20 speaks of cards (and marked cards); other words are made to go through the call, not judged
            12 => !card_like || (w.flag_as_pair() == w | o.flag_word("pair") && w.flag_as_quads() == w | o.flag_word("quads") && w.flag_as_pair().flag_as_pair() == w.flag_as_pair()),
            13 => {
                // construction from the members a card decodes to gives the card back
                match o.word_to_card.get(&w) {
                    Some(&i) => CKCNumber::create(w.get_card_rank(), w.get_card_suit()) == o.cards[i].w,
                    None => true,
                }
            }
            14 => {
                // comparison of two hand ranks converted from related values
                let a = (w >> 3) as u16;
                let b = match x % 5 { 0 => a, 1 => a.wrapping_add(1), 2 => a ^ 0x8000, 3 => !a, _ => (x >> 7) as u16 };
                let (ra, rb) = (HandRank::from(a), HandRank::from(b));
                let real = |v: u16| v >= 1 && v <= o.n_classes;
                let c = ra.cmp(&rb);
                let anchor = if real(a) && real(b) { c == b.cmp(&a) } else if !real(a) && real(b) { c == std::cmp::Ordering::Less }
                             else if real(a) && !real(b) { c == std::cmp::Ordering::Greater } else { (c == std::cmp::Ordering::Equal) == (a == b) };
                anchor && c == rb.cmp(&ra).reverse() && (ra == rb) == (a == b) && (ra < rb) == (c == std::cmp::Ordering::Less)
            }
            15 => {
                // fold-in / has on two pool sets
                let y = sets[(x % sets.len() as u64) as usize];
                x.fold_in(y) == x | y && x.has(y) == (x & y == y) && x.is_single_card() == (x.count_ones() == 1)
            }
            0 => CardNumber::filter(w) == if is_card(w) { w } else { 0 },
            1 => BinaryCard::from_ckc(w) == o.word_to_card.get(&w).map(|&i| 1u64 << o.cards[i].bit).unwrap_or(0),
            2 => !is_card(w) || w.shift_suit() == o.cards[o.word_to_card[&w]].shift,
            3 => {
                let e = if x.count_ones() == 1 && x.trailing_zeros() < 52 { o.cards.iter().find(|c| c.bit == x.trailing_zeros()).unwrap().w } else { 0 };
                CKCNumber::from_binary_card(x) == e
            }
            4 => x.number_of_cards() == x.count_ones() && BC64::is_valid(&x) == (x != 0 && x & o.overflow_bits == 0),
            5 => {
                let mut y = x;
                let c = y.peel();
                let cards = x & o.all_bits;
                if cards == 0 { c == 0 && y == x } else { c == 1u64 << (63 - cards.leading_zeros()) && y == x & !c }
            }
            6 => {
                let t = Two::new(w, words[(w as usize) % 52]);
                let (a, b) = (w, words[(w as usize) % 52]);
                if is_card(a) && is_card(b) && a != b {
                    let (ca, cb) = (&o.cards[o.word_to_card[&a]], &o.cards[o.word_to_card[&b]]);
                    t.chen_formula() as i32 == o.chen[&(ca.rank, cb.rank, ca.suit == cb.suit)].0
                } else {
                    true
                }
            }
            _ => {
                let r = w.strip_multiples_flags() == w & o.flag_word("strip_mask") && w.flag_as_trips() == w | o.flag_word("trips");
                !card_like || r
            }
        });
        if !owned(which) {
            n += 1;
            continue;
        }
        judged += 1;
        if ok != Ok(true) {
            rep.violation(json!({"property": rep.property, "why": format!("in a long single-threaded interleaving of card / set calls on a recurring pool, call kind #{} on word {:#x} / set {:#x} disagreed with the specification: the result depends on the calls made before", which, w, x),
                "event": match which {
                    1 => json!({"op": "bc_from_ckc", "w": hilo(w)}),
                    3 => json!({"op": "ckc_from_bc", "bc": limbs(x)}),
                    4 => json!({"op": "bc_info", "pre": limbs(x)}),
                    5 => json!({"op": "bc_peel", "pre": limbs(x)}),
                    8 => json!({"op": "two_from_bc", "bc": limbs(x)}),
                    7 | 12 => json!({"op": "flag", "w": hilo(w), "marks": ["pair"]}),
                    11 => json!({"op": "acc", "w": hilo(w)}),
                    _ => json!({"op": "filter", "w": hilo(w)}),
                }, "expected": {}, "note": "history-dependent"}));
            break;
        }
        n += 1;
    }
    rep.eval(n);
    rep.space(&format!("history probe: one thread, recurring pool of 113 words and 120 sets, random interleaving of sixteen kinds of card / set call; {} of the calls fall under this property's statement and were judged", judged), false, n);
}

/// Five-slot ranking, back to back: (1) every ordered pair of the 7,462 hand classes -- a representative
/// of the first, then a representative of the second, whose result is checked -- through the entry points
/// in turn; (2) for every rank multiset, its suit assignments in a seeded random order (hands that share
/// all their ranks are the natural neighbours of a coarse cache key).  One thread.
pub fn five_pairs_history(o: &Oracle, id: &str, seed: u64, rep: &Report, thorough: bool) {
    let di = |r: usize, s: usize| (3 - s) * 13 + (12 - r);
    let n = o.n_classes as usize;
    // one representative per class: flush classes in spades, others in a fixed mixed suit pattern
    let reps: Vec<[u32; 5]> = (0..n)
        .map(|k| {
            let c = &o.classes[k];
            let mut w = [0u32; 5];
            let mut used = std::collections::HashSet::new();
            for i in 0..5 {
                let r = c.ranks[i] as usize;
                let mut s = if c.flush { 3 } else { (i * 3 + 1) % 4 };
                while !used.insert((r, s)) {
                    s = (s + 1) % 4;
                }
                w[i] = o.cards[di(r, s)].w;
            }
            if !c.flush && (0..5).all(|i| o.cards[o.word_to_card[&w[i]]].suit == o.cards[o.word_to_card[&w[0]]].suit) {
                w[4] = o.cards[di(c.ranks[4] as usize, (o.cards[o.word_to_card[&w[4]]].suit + 1) % 4)].w;
            }
            w
        })
        .collect();
    for (k, w) in reps.iter().enumerate() {
        let mut idx: Vec<usize> = w.iter().map(|x| o.word_to_card[x]).collect();
        idx.sort_unstable();
        assert_eq!(o.best_of(&idx) as usize, k + 1, "harness: class representative");
    }
    let entries: [(&str, fn(&Five) -> u16); 4] = [
        ("v_value", |f| f.hand_rank_value()),
        ("v_rank", |f| f.hand_rank().value),
        ("v_validated", |f| f.hand_rank_value_validated()),
        ("v_rank_validated", |f| f.hand_rank_validated().value),
    ];
    let mut calls = 0u64;
    let mut bad = 0;
    let passes = if thorough { 4 } else { 2 };
    // C01 speaks of the value through every entry point; C06 of the rank records (entries 1 and 3)
    let entries: Vec<(&str, fn(&Five) -> u16)> = if id == "C06" { vec![entries[1], entries[3]] } else { entries.to_vec() };
    for (ei, (name, f)) in entries.iter().enumerate().take(passes) {
        // quick: the plain entry on all ordered pairs and the record-returning entry on every third first
        // class; thorough: all four on all ordered pairs
        for i in (0..n).step_by(if !thorough && ei == 1 && id != "C06" { 3 } else { 1 }) {
            let first = Five::from(reps[i]);
            let row = guarded(|| {
                let mut wrong = usize::MAX;
                for j in 0..n {
                    let _ = f(&first);
                    if f(&Five::from(reps[j])) as usize != j + 1 {
                        wrong = j;
                        break;
                    }
                }
                wrong
            });
            calls += 2 * n as u64;
            if row != Ok(usize::MAX) && bad < 3 {
                bad += 1;
                let j = row.clone().unwrap_or(0);
                rep.violation(json!({"property": rep.property, "why": format!("ranking a hand of class {} and then a hand of class {} through entry point {} gives the second hand a value other than {}: the result depends on the call made before (or the call unwound)", i + 1, j + 1, name, j + 1),
                    "event": {"op": "rank5", "words": hilo_arr(&reps[j])}, "expected": {*name: j + 1}, "preceded_by": hilo_arr(&reps[i]),
                    "note": "history-dependent: replaying the single call may pass"}));
            }
        }
        let _ = ei;
    }
    rep.space("history probe: every ordered pair of the 7,462 hand classes ranked back to back, one thread, per entry point", true, (n * n * passes) as u64);
    // (2) same ranks, suits re-dealt, in a seeded random order
    let mut rng = Rng::new(seed ^ 0x5517);
    let step = if thorough { 1 } else { 3 };
    let mut fam = 0u64;
    for k in (0..n).step_by(step) {
        let c = &o.classes[k];
        if c.flush {
            continue;
        }
        // all suit assignments giving five distinct cards
        let mut hands: Vec<([u32; 5], u16)> = vec![];
        for code in 0..1024usize {
            let suits = [code & 3, (code >> 2) & 3, (code >> 4) & 3, (code >> 6) & 3, (code >> 8) & 3];
            let mut idx: Vec<usize> = (0..5).map(|i| di(c.ranks[i] as usize, suits[i])).collect();
            let mut d = idx.clone();
            d.sort_unstable();
            d.dedup();
            if d.len() < 5 {
                continue;
            }
            let w = [o.cards[idx[0]].w, o.cards[idx[1]].w, o.cards[idx[2]].w, o.cards[idx[3]].w, o.cards[idx[4]].w];
            idx.sort_unstable();
            hands.push((w, o.best_of(&idx)));
        }
        rng.shuffle(&mut hands);
        let (name, f) = entries[(k / step) % entries.len()];
        let r = guarded(|| hands.iter().position(|(w, v)| f(&Five::from(*w)) != *v));
        calls += hands.len() as u64;
        fam += 1;
        if r != Ok(None) && bad < 6 {
            bad += 1;
            let j = r.clone().ok().flatten().unwrap_or(0);
            rep.violation(json!({"property": rep.property, "why": format!("ranking the suit assignments of one rank multiset one after another through {}: a hand got a value other than its own", name),
                "event": {"op": "rank5", "words": hilo_arr(&hands[j].0)}, "expected": {name: hands[j].1},
                "preceded_by": if j > 0 { hilo_arr(&hands[j - 1].0) } else { json!([]) }, "note": "history-dependent: replaying the single call may pass"}));
        }
    }
    rep.eval(calls);
    rep.space("history probe: for each rank multiset, its suit assignments ranked one after another in a seeded random order", false, fam);
}

/// Six / seven slots: families of sibling hands (same board, hole cards with suits swapped or re-dealt; the
/// same cards in another order) ranked back to back through each entry point.  One thread.
/// What is judged depends on the property: C02 the value (every entry point) against the best five-card value;
/// C06 the value carried by the rank records; C03 the reported hand (five distinct input cards, descending,
/// re-ranking to the reported value); C08 the value of the shifted hand against the value of the hand (code
/// against code); C09 the value against the smallest value of the hand's own sub-hands (code against code).
pub fn big_families_history(o: &Oracle, id: &str, seed: u64, rep: &Report, rounds: u64) {
    let di = |r: usize, s: usize| (3 - s) * 13 + (12 - r);
    let mut rng = Rng::new(seed ^ 0xFA71);
    let mut calls = 0u64;
    let mut bad = 0;
    for _ in 0..rounds {
        let n = 6 + rng.below(2) as usize;
        // a board and a family of "hole card" variations on it
        let mut deck: Vec<usize> = (0..52).collect();
        rng.shuffle(&mut deck);
        // boards that make flushes / straights likely: half of the time from one suit plus neighbours
        let base: Vec<usize> = if rng.below(2) == 0 {
            deck[..n].to_vec()
        } else {
            let s = rng.below(4) as usize;
            let r0 = rng.below(9) as usize;
            let mut b: Vec<usize> = (0..n - 2).map(|k| di((r0 + k) % 13, s)).collect();
            for c in &deck {
                if b.len() == n {
                    break;
                }
                if !b.contains(c) {
                    b.push(*c);
                }
            }
            b
        };
        let mut family: Vec<Vec<usize>> = vec![base.clone()];
        for _ in 0..6 {
            let mut v = family[rng.below(family.len() as u64) as usize].clone();
            let (a, b) = (rng.below(n as u64) as usize, rng.below(n as u64) as usize);
            let (ca, cb) = (&o.cards[v[a]], &o.cards[v[b]]);
            match rng.below(4) {
                3 => {
                    // swap the ranks of two slots (each slot keeps its suit)
                    let (na, nb) = (di(cb.rank, ca.suit), di(ca.rank, cb.suit));
                    v[a] = na;
                    v[b] = nb;
                }
                0 => {
                    // swap the suits of two cards
                    let (na, nb) = (di(ca.rank, cb.suit), di(cb.rank, ca.suit));
                    v[a] = na;
                    v[b] = nb;
                }
                1 => v[a] = di(ca.rank, (ca.suit + 1 + rng.below(3) as usize) % 4),
                _ => v.swap(a, b),
            }
            let mut d = v.clone();
            d.sort_unstable();
            d.dedup();
            if d.len() == n {
                family.push(v);
            }
        }
        let which = match id {
            "C06" => [1, 3][rng.below(2) as usize],
            "C03" => 5,
            "C08" => 6,
            "C09" => 7,
            _ => rng.below(5),
        };
        for v in &family {
            let w: Vec<u32> = v.iter().map(|&i| o.cards[i].w).collect();
            let mut idx = v.clone();
            idx.sort_unstable();
            let mut exp = o.best_of(&idx);
            let h = Hand::from_words(&w);
            let got = guarded(|| match which {
                0 => rank_value(&h),
                1 => hand_rank(&h).value,
                2 => rank_value_validated(&h),
                3 => hand_rank_validated(&h).value,
                4 => rank_value_and_hand(&h).value,
                5 => {
                    // the reported hand: five distinct input cards, descending, worth the reported value
                    let r = rank_value_and_hand(&h);
                    let wit = r.witness;
                    let ok = wit.windows(2).all(|p| p[0] > p[1]) && wit.iter().all(|c| w.contains(c)) && Five::from(wit).hand_rank_value() == r.value;
                    if ok { exp } else { 0 }
                }
                6 => rank_value(&h.shift_suit()),
                _ => rank_value(&h),
            });
            if which == 6 {
                // if ranking the hand itself unwinds there is no value to compare with (that is C05's statement)
                match guarded(|| rank_value(&h)) {
                    Ok(v) => exp = v,
                    Err(_) => continue,
                }
            } else if which == 7 {
                if got.is_err() {
                    continue;
                }
                // the smallest value among the hand's own sub-hands with one card left out
                exp = (0..n)
                    .map(|d| {
                        let sub: Vec<u32> = w.iter().enumerate().filter(|(k, _)| *k != d).map(|(_, c)| *c).collect();
                        guarded(|| rank_value(&Hand::from_words(&sub))).unwrap_or(u16::MAX)
                    })
                    .min()
                    .unwrap_or(0);
            }
            calls += 1;
            if got != Ok(exp) && bad < 4 {
                bad += 1;
                rep.violation(json!({"property": rep.property, "why": format!("ranking sibling hands (same board, suits swapped / re-dealt, slots swapped) one after another through entry point #{} (5: reported hand, 6: value after a shift vs before, 7: value vs the smallest of its sub-hands): a hand got {:?} instead of {}", which, got, exp),
                    "event": {"op": "rankn", "words": hilo_arr(&w)}, "expected": if which <= 4 { json!({"value": exp}) } else { json!({}) }, "note": "history-dependent: replaying the single call may pass"}));
            }
        }
    }
    rep.eval(calls);
    rep.space("history probe: families of sibling six/seven-card hands ranked back to back, one thread", false, rounds);
}

/// Live card sets peeled in an interleaved fashion: several sets are alive at once; each step peels ONE card
/// from one of them (or refills an empty slot with a fresh set, a suit-rotated twin or a sub-/superset of
/// another live set) and compares with the specification's reading of peel.  One thread.
pub fn peel_interleaving(o: &Oracle, seed: u64, rep: &Report, rounds: u64) {
    let all = o.all_bits;
    let rot = |x: u64, k: u32| -> u64 {
        let c = x & all;
        ((c << (13 * k)) | (c >> (52 - 13 * k))) & all | (x & !all)
    };
    let mut rng = Rng::new(seed ^ 0x9EE1);
    let mut live: Vec<u64> = (0..6).map(|_| rng.next() & rng.next() & all).collect();
    let mut calls = 0u64;
    for _ in 0..rounds {
        let k = rng.below(live.len() as u64) as usize;
        if live[k] & all == 0 || rng.below(12) == 0 {
            let other = live[rng.below(live.len() as u64) as usize];
            live[k] = match rng.below(6) {
                0 => rng.next() & rng.next() & all,
                1 => rot(other, 1),
                2 => rot(other, 2),
                3 => rot(other, 3),
                4 => other | (1u64 << rng.below(52)),
                _ => (1u64 << rng.below(52)) | (1u64 << rng.below(52)) | (rng.next() & o.overflow_bits & rng.next()),
            };
            continue;
        }
        let x = live[k];
        let cards = x & all;
        let ec = 1u64 << (63 - cards.leading_zeros());
        let got = guarded(|| {
            let mut y = x;
            let c = y.peel();
            (c, y)
        });
        calls += 1;
        if got != Ok((ec, x & !ec)) {
            rep.violation(json!({"property": rep.property, "why": "peeling several live sets in an interleaved fashion: a peel did not remove and return the highest remaining card of its own set (the result depends on peels of other sets)",
                "event": {"op": "bc_peel", "pre": limbs(x)}, "expected": {"res": limbs(ec), "post": limbs(x & !ec)}, "note": "history-dependent: replaying the single call may pass"}));
            break;
        }
        live[k] = x & !ec;
    }
    rep.eval(calls);
    rep.space("history probe: six live sets (fresh, suit-rotated twins, sub-/supersets of one another) peeled one card at a time in a seeded interleaving", false, calls);
}

// ---------------------------------------------------------------------------------------------------
// "Repeat, then a natural neighbour": f(x) once, twice or three times in a row (a memo is often armed only
// by a repeated call), then f(y) for inputs y naturally related to x -- the same cards in another suit, one
// card changed, operands swapped, the value next to it, the index plus a power of two, the set before and
// after a peel.  y's result is checked against the oracle.  One thread, deterministic.
// ---------------------------------------------------------------------------------------------------

fn di(r: usize, s: usize) -> usize {
    (3 - s) * 13 + (12 - r)
}

/// neighbours of a hand given by deck indices: one card re-suited, one card moved to the next rank, two
/// cards swapping suits, two slots swapped
fn hand_neighbours(o: &Oracle, idx: &[usize]) -> Vec<Vec<usize>> {
    let n = idx.len();
    let mut out = vec![];
    for a in 0..n {
        let c = &o.cards[idx[a]];
        for ds in 1..4 {
            let mut v = idx.to_vec();
            v[a] = di(c.rank, (c.suit + ds) % 4);
            out.push(v);
        }
        for dr in [1usize, 12] {
            let mut v = idx.to_vec();
            v[a] = di((c.rank + dr) % 13, c.suit);
            out.push(v);
        }
        for b in (a + 1)..n {
            let d = &o.cards[idx[b]];
            let mut v = idx.to_vec();
            v[a] = di(c.rank, d.suit);
            v[b] = di(d.rank, c.suit);
            out.push(v);
            let mut v = idx.to_vec();
            v.swap(a, b);
            out.push(v);
        }
    }
    out.retain(|v| {
        let mut d = v.clone();
        d.sort_unstable();
        d.dedup();
        d.len() == n
    });
    out
}

/// What is judged depends on the property (`id`): C01 values of five-card hands; C02 values of six/seven-card
/// hands; C06 the value carried by the rank records; C04 validated = unvalidated (code against code); C03 the
/// reported hand; C13 the predicates of the completed five-card hand; C05 the hand with one slot still blank
/// (returns normally; a five is 0).  The calls themselves are the same for every property.
pub fn repeat_then_neighbour_ranking(o: &Oracle, id: &str, seed: u64, rep: &Report, thorough: bool) {
    let mut rng = Rng::new(seed ^ 0x2E9);
    let mut calls = 0u64;
    let mut bad = 0;
    // bases: one hand per class (five slots) and seeded six/seven-slot hands
    let nbase5 = o.n_classes as usize;
    let nbig = if thorough { 6000 } else { 1200 };
    let mut bases: Vec<Vec<usize>> = vec![];
    for k in 0..nbase5 {
        let c = &o.classes[k];
        let mut used = std::collections::HashSet::new();
        let mut v = vec![];
        for i in 0..5 {
            let r = c.ranks[i] as usize;
            let mut s = if c.flush { 2 } else { (i * 3 + k) % 4 };
            while !used.insert((r, s)) {
                s = (s + 1) % 4;
            }
            v.push(di(r, s));
        }
        bases.push(v);
    }
    for _ in 0..nbig {
        let n = 6 + rng.below(2) as usize;
        let mut d: Vec<usize> = if rng.below(2) == 0 { (0..52).collect() } else { let s = rng.below(35) as usize; (s..s + 16).collect() };
        rng.shuffle(&mut d);
        bases.push(d[..n].to_vec());
    }
    let witness_ok = |w: &[u32], h: &Hand| -> bool {
        let r = rank_value_and_hand(h);
        let wit = r.witness;
        if w.len() == 5 {
            wit.to_vec() == w
        } else {
            wit.windows(2).all(|p| p[0] > p[1]) && wit.iter().all(|c| w.contains(c)) && Five::from(wit).hand_rank_value() == r.value
        }
    };
    let size_ok = |n: usize| -> bool {
        match id {
            "C01" => n == 5,
            "C02" => n >= 6,
            _ => true,
        }
    };
    if matches!(id, "C01" | "C02" | "C03" | "C04" | "C06") {
        for (bi, base) in bases.iter().enumerate() {
            if !size_ok(base.len()) {
                continue;
            }
            // the entry point under test: values (0..4), or the reported hand (5); 1 = yes for the yes/no kinds
            let which = match id {
                "C06" => [1, 3][bi % 2],
                "C04" => [2, 3][bi % 2],
                "C03" => 5,
                _ => bi % 5,
            };
            let f = |idx: &[usize]| -> Result<u16, String> {
                let w: Vec<u32> = idx.iter().map(|&i| o.cards[i].w).collect();
                let h = Hand::from_words(&w);
                guarded(|| match which {
                    0 => rank_value(&h),
                    1 => hand_rank(&h).value,
                    2 => rank_value_validated(&h),
                    3 => hand_rank_validated(&h).value,
                    4 => rank_value_and_hand(&h).value,
                    _ => witness_ok(&w, &h) as u16,
                })
            };
            let exp = |idx: &[usize]| -> u16 {
                if which == 5 {
                    return 1;
                }
                if id == "C04" {
                    // the same value as unvalidated ranking (code against code), which is not 0 for a hand
                    let w: Vec<u32> = idx.iter().map(|&i| o.cards[i].w).collect();
                    return match guarded(|| rank_value(&Hand::from_words(&w))) {
                        Ok(v) if v != 0 => v,
                        _ => u16::MAX,
                    };
                }
                let mut s = idx.to_vec();
                s.sort_unstable();
                o.best_of(&s)
            };
            let reps = 1 + bi % 3;
            for y in hand_neighbours(o, base) {
                for _ in 0..reps {
                    let _ = f(base);
                }
                calls += reps as u64 + 1;
                let got = f(&y);
                let e = exp(&y);
                if got != Ok(e) && bad < 4 {
                    bad += 1;
                    let w: Vec<u32> = y.iter().map(|&i| o.cards[i].w).collect();
                    let b: Vec<u32> = base.iter().map(|&i| o.cards[i].w).collect();
                    rep.violation(json!({"property": rep.property, "why": format!("ranking a hand {} time(s) in a row and then a neighbouring hand (one card re-suited / moved, suits or slots of two cards swapped) through entry point #{} (5: is the reported hand right? 1 = yes): the neighbour got {:?} instead of {}", reps, which, got, e),
                        "event": {"op": if y.len() == 5 {"rank5"} else {"rankn"}, "words": hilo_arr(&w)}, "expected": if which <= 4 && id != "C04" { json!({"value": e}) } else { json!({}) }, "preceded_by": hilo_arr(&b), "note": "history-dependent: replaying the single call may pass"}));
                }
            }
        }
    }
    // dealing card by card: the hand with one slot still blank is inspected first (every ranking entry point and,
    // for five slots, the four predicates), then the completed hand
    for (bi, base) in bases.iter().enumerate() {
        let n = base.len();
        if !size_ok(n) || (id == "C13" && n != 5) {
            continue;
        }
        let full: Vec<u32> = base.iter().map(|&i| o.cards[i].w).collect();
        let mut s = base.clone();
        s.sort_unstable();
        let exp = o.best_of(&s);
        let cls = &o.classes[exp as usize - 1];
        for a in 0..n {
            let mut partial = full.clone();
            partial[a] = 0;
            let r = guarded(|| {
                let hp = Hand::from_words(&partial);
                let mut pv = (0u16, 0u16, 0u16);
                for _ in 0..(1 + (bi + a) % 2) {
                    pv = (rank_value(&hp), rank_value_validated(&hp), hand_rank(&hp).value);
                    if n == 5 {
                        let f = Five::from([partial[0], partial[1], partial[2], partial[3], partial[4]]);
                        let _ = (f.is_flush(), f.is_straight(), f.is_straight_flush(), f.is_wheel());
                    }
                }
                let h = Hand::from_words(&full);
                let vals = (rank_value(&h), rank_value_validated(&h), hand_rank(&h).value, hand_rank_validated(&h).value);
                let preds = if n == 5 {
                    let f = Five::from([full[0], full[1], full[2], full[3], full[4]]);
                    Some((f.is_flush(), f.is_straight(), f.is_straight_flush(), f.is_wheel()))
                } else {
                    None
                };
                let wit = witness_ok(&full, &h);
                (pv, vals, preds, wit)
            });
            calls += 12;
            let e_preds = if n == 5 {
                Some((cls.flush, cls.category == "Straight" || cls.category == "StraightFlush", cls.category == "StraightFlush", cls.ranks == [12, 3, 2, 1, 0]))
            } else {
                None
            };
            let ok = match (&r, id) {
                (Err(_), _) => false, // something unwound on card-or-blank / valid hands: every one of these properties forbids it
                (Ok((_, vals, _, _)), "C01") | (Ok((_, vals, _, _)), "C02") => *vals == (exp, exp, exp, exp),
                (Ok((_, vals, _, _)), "C06") => vals.2 == exp && vals.3 == exp,
                (Ok((_, vals, _, _)), "C04") => vals.0 != 0 && vals.1 == vals.0 && vals.3 == vals.0,
                (Ok((_, _, _, wit)), "C03") => *wit,
                (Ok((_, _, preds, _)), "C13") => *preds == e_preds,
                (Ok((pv, _, _, _)), "C05") => n != 5 || *pv == (0, 0, 0),
                _ => true,
            };
            if !ok && bad < 8 {
                bad += 1;
                rep.violation(json!({"property": rep.property, "why": "inspecting a hand with one slot still blank and then the completed hand: what this property says about the blank hand or about the completed hand does not hold (the result depends on the calls made before, or a call unwound)",
                    "event": {"op": if n == 5 {"rank5"} else {"rankn"}, "words": hilo_arr(&full)},
                    "expected": match id {
                        "C13" => json!({"flush": cls.flush, "straight": e_preds.unwrap().1, "straight_flush": e_preds.unwrap().2, "wheel": e_preds.unwrap().3}),
                        "C01" | "C02" | "C06" => json!({"value": exp}),
                        _ => json!({}),
                    },
                    "preceded_by": hilo_arr(&partial), "note": "history-dependent: replaying the single call may pass"}));
            }
        }
    }
    rep.eval(calls);
    rep.space("history probe: each base hand ranked 1-3 times in a row, then each of its natural neighbours, per entry point; and each base hand with one slot blank, then completed (judged as far as this property's statement goes)", false, calls);
}

pub fn repeat_then_neighbour_misc(o: &Oracle, id: &str, _seed: u64, rep: &Report) {
    use ckc_rs::deck::Deck;
    let mut calls = 0u64;
    let mut fail = |why: &str, ev: Value, exp: Value| {
        rep.violation(json!({"property": rep.property, "why": why, "event": ev, "expected": exp, "note": "history-dependent: replaying the single call may pass"}));
    };
    match id {
        "C18" => {
            // deck access: an index, then a related index (and the other way round)
            let rel = |i: u64| -> Vec<u64> { vec![i, i + 52, i + 256, i + (1 << 16), i + (1 << 32), i + (1 << 33), i | (1 << 63), u64::MAX - i, i + 1, i.wrapping_sub(1)] };
            for i in 0..56u64 {
                for a in rel(i) {
                    for b in rel(i) {
                        for reps in 1..=2 {
                            let r = guarded(|| {
                                for _ in 0..reps {
                                    let _ = Deck::get(a as usize);
                                }
                                Deck::get(b as usize)
                            });
                            calls += reps + 1;
                            let e = if b < 52 { o.cards[b as usize].w } else { 0 };
                            if r != Ok(e) {
                                fail("deck access right after a related index gives the wrong card", json!({"op":"deck_get","index":limbs(b)}), json!({"res": hilo(e)}));
                                return;
                            }
                        }
                    }
                }
            }
        }
        "C14" | "C15" => {
            // a set, its peel, and conversions of the set before / after the peel, in every order
            let all = o.all_bits;
            let word_of = |x: u64| -> u32 { if x.count_ones() == 1 && x.trailing_zeros() < 52 { o.cards.iter().find(|c| c.bit == x.trailing_zeros()).unwrap().w } else { 0 } };
            let mut sets: Vec<u64> = vec![];
            for a in 0..52u32 {
                sets.push(1 << a);
                sets.push((1 << a) | (1 << ((a + 13) % 52)));
                sets.push((1u64 << a) | (1 << ((a * 7 + 3) % 52)) | (1 << ((a * 11 + 5) % 52)));
                sets.push((1u64 << a) | (1 << 52));
            }
            sets.push(all);
            sets.push(0x1F00_0000_0000);
            for &x in &sets {
                let r = guarded(|| {
                    let mut y = x;
                    let c = y.peel();
                    let after = [CKCNumber::from_binary_card(x), CKCNumber::from_binary_card(y), CKCNumber::from_binary_card(c), CKCNumber::from_binary_card(x)];
                    let mut z = x;
                    let c2 = z.peel();
                    (c, y, after, c2, z, BinaryCard::from_ckc(CKCNumber::from_binary_card(c)))
                });
                calls += 8;
                let cards = x & all;
                let ec = if cards == 0 { 0 } else { 1u64 << (63 - cards.leading_zeros()) };
                let ok = match &r {
                    Ok((c, y, after, c2, z, back)) => {
                        if id == "C15" {
                            // the peels (C15)
                            *c == ec && *y == x & !ec && *c2 == ec && *z == x & !ec
                        } else {
                            // the conversions of whatever the peels returned (C14)
                            *back == (if word_of(*c) != 0 { *c } else { 0 })
                                && after[0] == word_of(x) && after[1] == word_of(*y) && after[2] == word_of(*c) && after[3] == word_of(x)
                        }
                    }
                    Err(_) => false,
                };
                if !ok {
                    fail("peeling a set and converting the set before / after the peel: a conversion or a second peel depends on the peel made before", json!({"op":"ckc_from_bc","bc":limbs(x)}), json!({"res": hilo(word_of(x))}));
                    return;
                }
            }
        }
        "C16" => {
            // every ordered pair of cards: hand -> set (once, twice, three times) -> hand must be in deck order
            use ckc_rs::cards::two::Two;
            for a in &o.cards {
                for b in &o.cards {
                    if a.i == b.i {
                        continue;
                    }
                    let reps = 1 + (a.i + b.i) % 3;
                    let r = guarded(|| {
                        let t = Two::new(a.w, b.w);
                        let mut x = 0;
                        for _ in 0..reps {
                            x = BinaryCard::from_two(t);
                        }
                        (x, Two::try_from(x).map(|t| t.to_arr()))
                    });
                    calls += reps as u64 + 1;
                    let (hi, lo) = if a.bit > b.bit { (a, b) } else { (b, a) };
                    if r != Ok(((1u64 << a.bit) | (1u64 << b.bit), Ok([hi.w, lo.w]))) {
                        fail("converting a two-card hand to a set (possibly more than once) and the set back: the cards are not returned in deck order", json!({"op":"two_from_bc","bc":limbs((1u64 << a.bit) | (1u64 << b.bit))}), json!({"kind": "ok", "res": hilo_arr(&[hi.w, lo.w])}));
                        return;
                    }
                }
            }
        }
        "C17" => {
            // a two-card hand scored 1-3 times in a row, then the hand with one card re-suited / the slots swapped
            for a in &o.cards {
                for b in &o.cards {
                    if a.i == b.i {
                        continue;
                    }
                    let reps = 1 + (a.i * 5 + b.i) % 3;
                    let mut ys: Vec<(usize, usize)> = vec![(b.i, a.i)];
                    for ds in 1..4 {
                        ys.push((di(a.rank, (a.suit + ds) % 4), b.i));
                        ys.push((a.i, di(b.rank, (b.suit + ds) % 4)));
                    }
                    for (ya, yb) in ys {
                        if ya == yb {
                            continue;
                        }
                        let (ca, cb) = (&o.cards[ya], &o.cards[yb]);
                        let r = guarded(|| {
                            let mut t = Two::new(a.w, b.w);
                            for _ in 0..reps {
                                let _ = t.chen_formula();
                            }
                            // reach the neighbour through the setters of the same container
                            t.set_first(ca.w);
                            t.set_second(cb.w);
                            (t.chen_formula() as i32, t.get_gap(), t.is_suited(), t.to_arr())
                        });
                        calls += reps as u64 + 1;
                        // judged against the two cards the container really holds (storing them is C19's business)
                        let (ca, cb) = match &r {
                            Ok((_, _, _, arr)) => match (o.word_to_card.get(&arr[0]), o.word_to_card.get(&arr[1])) {
                                (Some(&i), Some(&j)) if i != j => (&o.cards[i], &o.cards[j]),
                                _ => continue,
                            },
                            Err(_) => (ca, cb),
                        };
                        let e = o.chen[&(ca.rank, cb.rank, ca.suit == cb.suit)];
                        if r.as_ref().map(|x| (x.0, x.1, x.2)) != Ok((e.0, e.1, ca.suit == cb.suit)) {
                            fail("scoring a two-card hand (possibly more than once) and then a hand that differs in one card's suit or in slot order: the second score is not the Chen formula of its own cards", json!({"op":"chen","a":hilo(ca.w),"b":hilo(cb.w)}), json!({"score": e.0, "gap": e.1}));
                            return;
                        }
                    }
                }
            }
        }
        "C10" => {
            // the card recogniser / a hand validation, then construction from every enumeration pair
            use crate::observe::{rank_enum, suit_enum, RANK_NAMES, SUIT_NAMES};
            let mut pool: Vec<u32> = o.cards.iter().map(|c| c.w).collect();
            pool.push(0);
            pool.push(o.cards[51].w | o.flag_word("pair"));
            for &w in &pool {
                for rn in RANK_NAMES.iter() {
                    for sn in SUIT_NAMES.iter() {
                        let e = o.cards.iter().find(|c| c.rank_name == *rn && c.suit_name == *sn).map(|c| c.w).unwrap_or(0);
                        let r = guarded(|| {
                            let _ = CardNumber::filter(w);
                            let _ = Hand::from_words(&[o.cards[0].w, o.cards[14].w, w]).is_valid();
                            let _ = w.get_card_rank();
                            CKCNumber::create(rank_enum(rn), suit_enum(sn))
                        });
                        calls += 4;
                        if r != Ok(e) {
                            fail("recognising / validating a word and then constructing a card from a (rank, suit) pair: construction does not produce the documented word (blank if a member is blank)", json!({"op":"create","rank":rn,"suit":sn}), json!({"res": hilo(e)}));
                            return;
                        }
                    }
                }
            }
        }
        "C20" => {
            // several live words marked, upgraded and stripped in an interleaved fashion
            let mut rng = Rng::new(0xC20);
            for _ in 0..200_000 {
                let k = 2 + rng.below(3) as usize;
                let base: Vec<u32> = (0..k).map(|_| o.cards[rng.below(52) as usize].w).collect();
                let mut live = base.clone();
                let r = guarded(|| {
                    for _ in 0..(2 + rng.below(6)) {
                        let j = rng.below(k as u64) as usize;
                        live[j] = match rng.below(3) { 0 => live[j].flag_as_pair(), 1 => live[j].flag_as_trips(), _ => live[j].flag_as_quads() };
                    }
                    (0..k).all(|j| live[j].strip_multiples_flags() == base[j] && live[j] & o.flag_word("strip_mask") == base[j] && (live[j] == base[j] || o.cards.iter().all(|c| live[j] > c.w)))
                });
                calls += 8;
                if r != Ok(true) {
                    fail("marking several cards in an interleaved fashion and then stripping them: a stripped word is not its own card", json!({"op":"flag","w":hilo(base[0]),"marks":["pair","trips"]}), json!({"stripped": hilo(base[0])}));
                    return;
                }
            }
        }
        "C07" => {
            // comparison repeated, then a neighbouring pair of values
            let vals: Vec<u16> = vec![0, 1, 2, 10, 11, 166, 167, 1599, 1600, 3325, 3326, 6185, 6186, 7461, 7462, 7463, 7464, 32767, 32768, 32769, 65534, 65535];
            let nb = |v: u16| -> Vec<u16> { vec![v, v.wrapping_add(1), v.wrapping_sub(1), v ^ 0x8000, !v, v.rotate_left(8)] };
            let real = |v: u16| v >= 1 && v <= o.n_classes;
            for &a in &vals {
                for &b in &vals {
                    for a2 in nb(a) {
                        for (x, y) in [(a2, b), (b, a2), (b, a), (a2, 7462), (7462, a2), (a2, 1), (a2, 7463)] {
                            let r = guarded(|| {
                                let (ra, rb) = (HandRank::from(a), HandRank::from(b));
                                let _ = ra.cmp(&rb);
                                let _ = ra < rb;
                                let (rx, ry) = (HandRank::from(x), HandRank::from(y));
                                (rx.cmp(&ry), ry.cmp(&rx), rx == ry, rx < ry, rx >= ry)
                            });
                            calls += 7;
                            let ok = match r {
                                Ok((c, c2, eq, lt, ge)) => {
                                    let anchor = if real(x) && real(y) { c == y.cmp(&x) } else if !real(x) && real(y) { c == std::cmp::Ordering::Less }
                                                 else if real(x) && !real(y) { c == std::cmp::Ordering::Greater } else { (c == std::cmp::Ordering::Equal) == (x == y) };
                                    anchor && c2 == c.reverse() && eq == (x == y) && lt == (c == std::cmp::Ordering::Less) && ge == (c != std::cmp::Ordering::Less)
                                }
                                Err(_) => false,
                            };
                            if !ok {
                                fail("comparing two ranks and then a neighbouring pair (a value next to it, operands swapped): the second comparison is not lawful", json!({"op":"cmp","a":x,"b":y}), json!({"lawful": true}));
                                return;
                            }
                        }
                    }
                }
            }
        }
        _ => {}
    }
    rep.eval(calls);
    rep.space("history probe: repeat a call, then a naturally related input (see harness/src/props/history.rs)", false, calls);
}

/// C07's counterpart of `conversion_neighbours`: every value converted 1-3 times in a row, then each single-bit
/// neighbour (and the complement) converted and COMPARED with freshly converted anchors -- only what C07 says
/// about comparisons is judged (what the names and classes are belongs to C06).  One thread.
pub fn conversion_then_compare(o: &Oracle, rep: &Report) {
    use std::cmp::Ordering as O;
    let real = |v: u16| v >= 1 && v <= o.n_classes;
    let mut calls = 0u64;
    for v in 0..=65535u32 {
        let v = v as u16;
        let reps = 1 + (v % 3) as usize;
        for k in 0..17 {
            let y = if k == 16 { !v } else { v ^ (1 << k) };
            let r = guarded(|| {
                for _ in 0..reps {
                    let _ = HandRank::from(v);
                }
                let ry = HandRank::from(y);
                let mut ok = ry == HandRank::from(y) && ry.cmp(&HandRank::from(y)) == O::Equal;
                for a in [0u16, 1, 166, o.n_classes, o.n_classes + 1, 65535] {
                    let ra = HandRank::from(a);
                    let c = ry.cmp(&ra);
                    let anchor = if real(y) && real(a) { c == a.cmp(&y) } else if !real(y) && real(a) { c == O::Less }
                                 else if real(y) && !real(a) { c == O::Greater } else { (c == O::Equal) == (y == a) };
                    ok = ok && anchor && ra.cmp(&ry) == c.reverse() && (ry == ra) == (y == a) && (ry < ra) == (c == O::Less) && (ry >= ra) == (c != O::Less);
                }
                ok
            });
            calls += reps as u64 + 14;
            if r != Ok(true) {
                rep.violation(json!({"property": rep.property, "why": format!("converting {} {} time(s) in a row and then {}: comparing the second rank with freshly converted ranks is not lawful (the result depends on the calls made before)", v, reps, y),
                    "event": {"op": "cmp", "a": y, "b": 1}, "expected": {"lawful": true}, "note": "history-dependent: replaying the single call may pass"}));
                return;
            }
        }
    }
    rep.eval(calls);
    rep.space("history probe: every 16-bit value converted 1-3 times in a row, then each single-bit neighbour and the complement compared with six freshly converted anchors", true, calls);
}

/// Conversions value -> hand rank: every value converted once, twice or three times in a row, then each of its
/// single-bit neighbours (and its complement), checked field by field against the specification.  One thread.
pub fn conversion_neighbours(o: &Oracle, rep: &Report) {
    let mut calls = 0u64;
    for v in 0..=65535u32 {
        let v = v as u16;
        let reps = 1 + (v % 3) as usize;
        for k in 0..17 {
            let y = if k == 16 { !v } else { v ^ (1 << k) };
            let r = guarded(|| {
                for _ in 0..reps {
                    let _ = HandRank::from(v);
                }
                let h = HandRank::from(y);
                (h.value, format!("{:?}", h.name), format!("{:?}", h.class), h.is_invalid(), h.is_a_valid_hand_rank())
            });
            calls += reps as u64 + 1;
            let real = y >= 1 && y <= o.n_classes;
            if r != Ok((y, o.name_of(y).to_string(), o.class_of(y).to_string(), !real, true)) {
                rep.violation(json!({"property": rep.property, "why": format!("converting {} {} time(s) in a row and then {}: the second rank does not describe the class whose ordinal is {} (the result depends on the calls made before)", v, reps, y, y),
                    "event": {"op": "hr_from", "v": y}, "expected": {"value": y, "name": o.name_of(y), "class": o.class_of(y), "invalid": !real},
                    "note": "history-dependent: replaying the single call may pass"}));
                return;
            }
        }
    }
    rep.eval(calls);
    rep.space("history probe: every 16-bit value converted 1-3 times in a row, then each single-bit neighbour and the complement", true, calls);
}
