//! History independence: every observation of the library is a function of its arguments alone, so the
//! same call must give the same (oracle-checked) answer whatever was called before it.  The exhaustive
//! sweeps call each function once per fresh input in a systematic order and on many threads; this probe is
//! the complement: ONE thread, a small recurring pool of inputs, and a long seeded random interleaving of
//! all the entry points, so that every input is seen again and again after different predecessors
//! (a memo, cache or lazily initialised table with a coarse key or a wrong invalidation shows up here).

use super::*;
use ckc_rs::cards::binary_card::{BinaryCard, BC64};
use ckc_rs::cards::five::Five;
use ckc_rs::cards::two::Two;
use ckc_rs::cards::HandRanker;
use ckc_rs::hand_rank::HandRank;
use ckc_rs::{CKCNumber, CardNumber, PokerCard, Shifty};

struct Item {
    words: Vec<u32>,
    valid: bool,
    value: u16,             // oracle value if valid
    card_or_blank: bool,
}

fn make_pool(o: &Oracle, rng: &mut Rng, size: usize) -> Vec<Item> {
    let mut pool = vec![];
    while pool.len() < size {
        let n = 5 + rng.below(3) as usize;
        let kind = rng.below(10);
        let mut idx: Vec<usize> = {
            let mut d: Vec<usize> = (0..52).collect();
            // half of the pool from a narrow window so that hands share rank patterns, suits and products
            if kind < 5 {
                let start = rng.below(40) as usize;
                d = (start..start + 12).collect();
            }
            rng.shuffle(&mut d);
            d.into_iter().take(n).collect()
        };
        let mut words: Vec<u32> = idx.iter().map(|&i| o.cards[i].w).collect();
        let mut valid = true;
        if kind == 8 {
            let j = rng.below(n as u64) as usize;
            words[j] = 0;
            valid = false;
        } else if kind == 9 {
            let (a, b) = (rng.below(n as u64) as usize, rng.below(n as u64) as usize);
            if a != b {
                words[a] = words[b];
                valid = false;
            }
        }
        let value = if valid {
            idx.sort_unstable();
            o.best_of(&idx)
        } else {
            0
        };
        pool.push(Item { words, valid, value, card_or_blank: true });
    }
    // the same cards again in other slot orders and shifted to the next suit
    let extra: Vec<Item> = pool
        .iter()
        .take(size / 3)
        .map(|it| {
            let mut w = it.words.clone();
            rng.shuffle(&mut w);
            Item { words: w, valid: it.valid, value: it.value, card_or_blank: true }
        })
        .collect();
    pool.extend(extra);
    pool
}

/// Ranking entry points of Five / Six / Seven interleaved on a recurring pool.
pub fn ranking_history(o: &Oracle, seed: u64, rep: &Report, rounds: u64) {
    let mut rng = Rng::new(seed ^ 0x415);
    let pool = make_pool(o, &mut rng, 240);
    let mut n = 0u64;
    for _ in 0..rounds {
        let it = &pool[rng.below(pool.len() as u64) as usize];
        let h = Hand::from_words(&it.words);
        let which = rng.below(11);
        let blank5 = it.words.len() == 5 && it.words.contains(&0);
        let bad: Option<(&str, Value)> = match guarded(|| match which {
            9 | 10 => {
                // the public product-search helper, with keys related to the pool: 0 (any hand with a blank),
                // the product of this hand, or a random key; it must return normally (kind 3: no value check)
                let key = match rng.below(3) {
                    0 => 0usize,
                    1 => if it.words.len() == 5 { Five::from([it.words[0], it.words[1], it.words[2], it.words[3], it.words[4]]).multiply_primes() } else { 48 },
                    _ => (rng.next() >> rng.below(64)) as usize,
                };
                let _ = Five::find_in_products(key);
                (0, 3)
            }
            0 => (rank_value(&h) as i64, 0i64),
            1 => (hand_rank(&h).value as i64, 0),
            2 => (rank_value_and_hand(&h).value as i64, 0),
            3 => (rank_value_validated(&h) as i64, 1),
            4 => (hand_rank_validated(&h).value as i64, 1),
            5 => (if it.words.len() == 5 { ckc_rs::evaluate::five_cards([it.words[0], it.words[1], it.words[2], it.words[3], it.words[4]]) as i64 } else { rank_value_validated(&h) as i64 }, 1),
            6 => {
                // rank of the suit-shifted hand equals the rank of the hand
                (rank_value(&h.shift_suit()) as i64, 0)
            }
            7 => {
                // the reported hand re-ranks to the reported value
                let r = rank_value_and_hand(&h);
                (Five::from(r.witness).hand_rank_value() as i64, 2)
            }
            _ => {
                let hr = hand_rank(&h);
                (if hr == HandRank::from(hr.value) { hr.value as i64 } else { -2 }, 0)
            }
        }) {
            Err(_) => Some(("unwound", json!(-1))),
            Ok((got, kind)) => {
                let exp: Option<i64> = match kind {
                    3 => None,
                    1 => Some(if it.valid { it.value as i64 } else { 0 }),
                    _ => {
                        if it.valid {
                            Some(it.value as i64)
                        } else if blank5 && kind == 0 && which != 6 {
                            Some(0) // C05: a five-slot hand that contains a blank is never given a real rank
                        } else {
                            None // other repeated-card / blank hands: only "returns normally" is strict
                        }
                    }
                };
                match exp {
                    Some(e) if e != got => Some(("value", json!(got))),
                    _ => None,
                }
            }
        };
        if let Some((what, got)) = bad {
            let op = if it.words.len() == 5 { "rank5" } else { "rankn" };
            rep.violation(json!({"property": rep.property, "why": format!("in a long single-threaded interleaving of ranking calls on a recurring pool of hands, entry point #{} gave {} ({}) for a hand whose value is {}: the result depends on the calls made before", which, got, what, it.value),
                "event": {"op": op, "words": hilo_arr(&it.words)}, "expected": if it.valid { json!({"value": it.value, "v_validated": it.value}) } else { json!({"v_validated": 0}) },
                "note": "history-dependent: the single call may pass on replay; see `why`"}));
            if rep.violations_total.load(std::sync::atomic::Ordering::Relaxed) > 5 {
                break;
            }
        }
        let _ = it.card_or_blank;
        n += 1;
    }
    rep.eval(n);
    rep.space("history probe: one thread, 320 recurring five/six/seven-slot hands (valid, blank, repeated; shuffled), random interleaving of nine ranking entry points", false, n);
}

/// Card-level and set-level pure functions on a recurring pool of words / sets, interleaved.
pub fn words_history(o: &Oracle, seed: u64, rep: &Report, rounds: u64) {
    let mut rng = Rng::new(seed ^ 0x7715);
    let mut words: Vec<u32> = o.cards.iter().map(|c| c.w).collect();
    words.push(0);
    for _ in 0..60 {
        let c = o.cards[rng.below(52) as usize].w;
        words.push(match rng.below(5) {
            0 => c | (1 << (29 + rng.below(3))),
            1 => c ^ (1 << rng.below(32)),
            2 => u32::MAX,
            3 => rng.below(100) as u32,
            _ => rng.u32(),
        });
    }
    let sets: Vec<u64> = (0..120)
        .map(|k| match k % 4 {
            0 => 1u64 << rng.below(64),
            1 => rng.next() & rng.next() & o.all_bits,
            2 => rng.next() & rng.next(),
            _ => (1u64 << rng.below(52)) | (1u64 << rng.below(52)),
        })
        .collect();
    let is_card = |w: u32| o.word_to_card.contains_key(&w);
    let mut n = 0u64;
    for _ in 0..rounds {
        let w = words[rng.below(words.len() as u64) as usize];
        let x = sets[rng.below(sets.len() as u64) as usize];
        let which = rng.below(8);
        let ok = guarded(|| match which {
            0 => CardNumber::filter(w) == if is_card(w) { w } else { 0 },
            1 => BinaryCard::from_ckc(w) == o.word_to_card.get(&w).map(|&i| 1u64 << o.cards[i].bit).unwrap_or(0),
            2 => !is_card(w) || w.shift_suit() == o.cards[o.word_to_card[&w]].shift,
            3 => {
                let e = if x.count_ones() == 1 && x.trailing_zeros() < 52 { o.cards.iter().find(|c| c.bit == x.trailing_zeros()).unwrap().w } else { 0 };
                CKCNumber::from_binary_card(x) == e
            }
            4 => x.number_of_cards() == x.count_ones() && BC64::is_valid(&x) == (x != 0 && x & o.overflow_bits == 0),
            5 => {
                let mut y = x;
                let c = y.peel();
                let cards = x & o.all_bits;
                if cards == 0 { c == 0 && y == x } else { c == 1u64 << (63 - cards.leading_zeros()) && y == x & !c }
            }
            6 => {
                let t = Two::new(w, words[(w as usize) % 52]);
                let (a, b) = (w, words[(w as usize) % 52]);
                if is_card(a) && is_card(b) && a != b {
                    let (ca, cb) = (&o.cards[o.word_to_card[&a]], &o.cards[o.word_to_card[&b]]);
                    t.chen_formula() as i32 == o.chen[&(ca.rank, cb.rank, ca.suit == cb.suit)].0
                } else {
                    true
                }
            }
            _ => w.strip_multiples_flags() == w & o.flag_word("strip_mask") && w.flag_as_trips() == w | o.flag_word("trips"),
        });
        if ok != Ok(true) {
            rep.violation(json!({"property": rep.property, "why": format!("in a long single-threaded interleaving of card / set calls on a recurring pool, call kind #{} on word {:#x} / set {:#x} disagreed with the specification: the result depends on the calls made before", which, w, x),
                "event": {"op": "filter", "w": hilo(w)}, "expected": {}, "note": "history-dependent"}));
            break;
        }
        n += 1;
    }
    rep.eval(n);
    rep.space("history probe: one thread, recurring pool of 113 words and 120 sets, random interleaving of eight card / set functions", false, n);
}

/// Five-slot ranking, back to back: (1) every ordered pair of the 7,462 hand classes -- a representative
/// of the first, then a representative of the second, whose result is checked -- through the entry points
/// in turn; (2) for every rank multiset, its suit assignments in a seeded random order (hands that share
/// all their ranks are the natural neighbours of a coarse cache key).  One thread.
pub fn five_pairs_history(o: &Oracle, seed: u64, rep: &Report, thorough: bool) {
    let di = |r: usize, s: usize| (3 - s) * 13 + (12 - r);
    let n = o.n_classes as usize;
    // one representative per class: flush classes in spades, others in a fixed mixed suit pattern
    let reps: Vec<[u32; 5]> = (0..n)
        .map(|k| {
            let c = &o.classes[k];
            let mut w = [0u32; 5];
            let mut used = std::collections::HashSet::new();
            for i in 0..5 {
                let r = c.ranks[i] as usize;
                let mut s = if c.flush { 3 } else { (i * 3 + 1) % 4 };
                while !used.insert((r, s)) {
                    s = (s + 1) % 4;
                }
                w[i] = o.cards[di(r, s)].w;
            }
            if !c.flush && (0..5).all(|i| o.cards[o.word_to_card[&w[i]]].suit == o.cards[o.word_to_card[&w[0]]].suit) {
                w[4] = o.cards[di(c.ranks[4] as usize, (o.cards[o.word_to_card[&w[4]]].suit + 1) % 4)].w;
            }
            w
        })
        .collect();
    for (k, w) in reps.iter().enumerate() {
        let mut idx: Vec<usize> = w.iter().map(|x| o.word_to_card[x]).collect();
        idx.sort_unstable();
        assert_eq!(o.best_of(&idx) as usize, k + 1, "harness: class representative");
    }
    let entries: [(&str, fn(&Five) -> u16); 4] = [
        ("v_value", |f| f.hand_rank_value()),
        ("v_rank", |f| f.hand_rank().value),
        ("v_validated", |f| f.hand_rank_value_validated()),
        ("v_rank_validated", |f| f.hand_rank_validated().value),
    ];
    let mut calls = 0u64;
    let mut bad = 0;
    let passes = if thorough { 4 } else { 2 };
    for (ei, (name, f)) in entries.iter().enumerate().take(passes) {
        // quick: the plain entry on all ordered pairs and the record-returning entry on every third first
        // class; thorough: all four on all ordered pairs
        for i in (0..n).step_by(if !thorough && ei == 1 { 3 } else { 1 }) {
            let first = Five::from(reps[i]);
            let row = guarded(|| {
                let mut wrong = usize::MAX;
                for j in 0..n {
                    let _ = f(&first);
                    if f(&Five::from(reps[j])) as usize != j + 1 {
                        wrong = j;
                        break;
                    }
                }
                wrong
            });
            calls += 2 * n as u64;
            if row != Ok(usize::MAX) && bad < 3 {
                bad += 1;
                let j = row.clone().unwrap_or(0);
                rep.violation(json!({"property": rep.property, "why": format!("ranking a hand of class {} and then a hand of class {} through entry point {} gives the second hand a value other than {}: the result depends on the call made before (or the call unwound)", i + 1, j + 1, name, j + 1),
                    "event": {"op": "rank5", "words": hilo_arr(&reps[j])}, "expected": {*name: j + 1}, "preceded_by": hilo_arr(&reps[i]),
                    "note": "history-dependent: replaying the single call may pass"}));
            }
        }
        let _ = ei;
    }
    rep.space("history probe: every ordered pair of the 7,462 hand classes ranked back to back, one thread, per entry point", true, (n * n * passes) as u64);
    // (2) same ranks, suits re-dealt, in a seeded random order
    let mut rng = Rng::new(seed ^ 0x5517);
    let step = if thorough { 1 } else { 3 };
    let mut fam = 0u64;
    for k in (0..n).step_by(step) {
        let c = &o.classes[k];
        if c.flush {
            continue;
        }
        // all suit assignments giving five distinct cards
        let mut hands: Vec<([u32; 5], u16)> = vec![];
        for code in 0..1024usize {
            let suits = [code & 3, (code >> 2) & 3, (code >> 4) & 3, (code >> 6) & 3, (code >> 8) & 3];
            let mut idx: Vec<usize> = (0..5).map(|i| di(c.ranks[i] as usize, suits[i])).collect();
            let mut d = idx.clone();
            d.sort_unstable();
            d.dedup();
            if d.len() < 5 {
                continue;
            }
            let w = [o.cards[idx[0]].w, o.cards[idx[1]].w, o.cards[idx[2]].w, o.cards[idx[3]].w, o.cards[idx[4]].w];
            idx.sort_unstable();
            hands.push((w, o.best_of(&idx)));
        }
        rng.shuffle(&mut hands);
        let (name, f) = entries[(k / step) % 4];
        let r = guarded(|| hands.iter().position(|(w, v)| f(&Five::from(*w)) != *v));
        calls += hands.len() as u64;
        fam += 1;
        if r != Ok(None) && bad < 6 {
            bad += 1;
            let j = r.clone().ok().flatten().unwrap_or(0);
            rep.violation(json!({"property": rep.property, "why": format!("ranking the suit assignments of one rank multiset one after another through {}: a hand got a value other than its own", name),
                "event": {"op": "rank5", "words": hilo_arr(&hands[j].0)}, "expected": {name: hands[j].1},
                "preceded_by": if j > 0 { hilo_arr(&hands[j - 1].0) } else { json!([]) }, "note": "history-dependent: replaying the single call may pass"}));
        }
    }
    rep.eval(calls);
    rep.space("history probe: for each rank multiset, its suit assignments ranked one after another in a seeded random order", false, fam);
}

/// Six / seven slots: families of sibling hands (same board, hole cards with suits swapped or re-dealt; the
/// same cards in another order) ranked back to back through each entry point.  One thread.
pub fn big_families_history(o: &Oracle, seed: u64, rep: &Report, rounds: u64) {
    let di = |r: usize, s: usize| (3 - s) * 13 + (12 - r);
    let mut rng = Rng::new(seed ^ 0xFA71);
    let mut calls = 0u64;
    let mut bad = 0;
    for _ in 0..rounds {
        let n = 6 + rng.below(2) as usize;
        // a board and a family of "hole card" variations on it
        let mut deck: Vec<usize> = (0..52).collect();
        rng.shuffle(&mut deck);
        // boards that make flushes / straights likely: half of the time from one suit plus neighbours
        let base: Vec<usize> = if rng.below(2) == 0 {
            deck[..n].to_vec()
        } else {
            let s = rng.below(4) as usize;
            let r0 = rng.below(9) as usize;
            let mut b: Vec<usize> = (0..n - 2).map(|k| di((r0 + k) % 13, s)).collect();
            for c in &deck {
                if b.len() == n {
                    break;
                }
                if !b.contains(c) {
                    b.push(*c);
                }
            }
            b
        };
        let mut family: Vec<Vec<usize>> = vec![base.clone()];
        for _ in 0..6 {
            let mut v = family[rng.below(family.len() as u64) as usize].clone();
            let (a, b) = (rng.below(n as u64) as usize, rng.below(n as u64) as usize);
            let (ca, cb) = (&o.cards[v[a]], &o.cards[v[b]]);
            match rng.below(4) {
                3 => {
                    // swap the ranks of two slots (each slot keeps its suit)
                    let (na, nb) = (di(cb.rank, ca.suit), di(ca.rank, cb.suit));
                    v[a] = na;
                    v[b] = nb;
                }
                0 => {
                    // swap the suits of two cards
                    let (na, nb) = (di(ca.rank, cb.suit), di(cb.rank, ca.suit));
                    v[a] = na;
                    v[b] = nb;
                }
                1 => v[a] = di(ca.rank, (ca.suit + 1 + rng.below(3) as usize) % 4),
                _ => v.swap(a, b),
            }
            let mut d = v.clone();
            d.sort_unstable();
            d.dedup();
            if d.len() == n {
                family.push(v);
            }
        }
        let which = rng.below(5);
        for v in &family {
            let w: Vec<u32> = v.iter().map(|&i| o.cards[i].w).collect();
            let mut idx = v.clone();
            idx.sort_unstable();
            let exp = o.best_of(&idx);
            let h = Hand::from_words(&w);
            let got = guarded(|| match which {
                0 => rank_value(&h),
                1 => hand_rank(&h).value,
                2 => rank_value_validated(&h),
                3 => hand_rank_validated(&h).value,
                _ => rank_value_and_hand(&h).value,
            });
            calls += 1;
            if got != Ok(exp) && bad < 4 {
                bad += 1;
                rep.violation(json!({"property": rep.property, "why": format!("ranking sibling hands (same board, suits swapped / re-dealt, slots swapped) one after another through entry point #{}: a hand got {:?} instead of {}", which, got, exp),
                    "event": {"op": "rankn", "words": hilo_arr(&w)}, "expected": {"value": exp}, "note": "history-dependent: replaying the single call may pass"}));
            }
        }
    }
    rep.eval(calls);
    rep.space("history probe: families of sibling six/seven-card hands ranked back to back, one thread", false, rounds);
}

/// Live card sets peeled in an interleaved fashion: several sets are alive at once; each step peels ONE card
/// from one of them (or refills an empty slot with a fresh set, a suit-rotated twin or a sub-/superset of
/// another live set) and compares with the specification's reading of peel.  One thread.
pub fn peel_interleaving(o: &Oracle, seed: u64, rep: &Report, rounds: u64) {
    let all = o.all_bits;
    let rot = |x: u64, k: u32| -> u64 {
        let c = x & all;
        ((c << (13 * k)) | (c >> (52 - 13 * k))) & all | (x & !all)
    };
    let mut rng = Rng::new(seed ^ 0x9EE1);
    let mut live: Vec<u64> = (0..6).map(|_| rng.next() & rng.next() & all).collect();
    let mut calls = 0u64;
    for _ in 0..rounds {
        let k = rng.below(live.len() as u64) as usize;
        if live[k] & all == 0 || rng.below(12) == 0 {
            let other = live[rng.below(live.len() as u64) as usize];
            live[k] = match rng.below(6) {
                0 => rng.next() & rng.next() & all,
                1 => rot(other, 1),
                2 => rot(other, 2),
                3 => rot(other, 3),
                4 => other | (1u64 << rng.below(52)),
                _ => (1u64 << rng.below(52)) | (1u64 << rng.below(52)) | (rng.next() & o.overflow_bits & rng.next()),
            };
            continue;
        }
        let x = live[k];
        let cards = x & all;
        let ec = 1u64 << (63 - cards.leading_zeros());
        let got = guarded(|| {
            let mut y = x;
            let c = y.peel();
            (c, y)
        });
        calls += 1;
        if got != Ok((ec, x & !ec)) {
            rep.violation(json!({"property": rep.property, "why": "peeling several live sets in an interleaved fashion: a peel did not remove and return the highest remaining card of its own set (the result depends on peels of other sets)",
                "event": {"op": "bc_peel", "pre": limbs(x)}, "expected": {"res": limbs(ec), "post": limbs(x & !ec)}, "note": "history-dependent: replaying the single call may pass"}));
            break;
        }
        live[k] = x & !ec;
    }
    rep.eval(calls);
    rep.space("history probe: six live sets (fresh, suit-rotated twins, sub-/supersets of one another) peeled one card at a time in a seeded interleaving", false, calls);
}
