//! C04, C10, C11, C19, C20: card words, validity, sorting, containers, multiples flags.

use super::*;
use crate::named::NAMED;
use crate::observe::{rank_enum, suit_enum};
use ckc_rs::deck::{Deck, POKER_DECK};
use ckc_rs::{CKCNumber, CardNumber, PokerCard};
#[allow(unused_imports)]
use ckc_rs::cards::HandValidator;

fn is_card(o: &Oracle, w: u32) -> bool {
    o.word_to_card.contains_key(&w)
}

/// every u32 word through `f`, in parallel
fn all_words<F: Fn(u32) + Sync>(f: F) {
    par_chunks(4096, |c| {
        let base = (c as u32) << 20;
        for k in 0..(1u32 << 20) {
            f(base | k);
        }
    });
}

pub fn c10(o: &Oracle, _thorough: bool, _seed: u64, rep: &Report) {
    // construction from every (rank, suit) enumeration pair, blank members included
    for rn in rank_names().iter() {
        for sn in suit_names().iter() {
            let exp = o.cards.iter().find(|c| c.rank_name == *rn && c.suit_name == *sn).map(|c| c.w).unwrap_or(0);
            let got = guarded(|| CKCNumber::create(rank_enum(rn), suit_enum(sn)));
            if got != Ok(exp) {
                viol(rep, json!({"op":"create","rank":rn,"suit":sn}), json!({"res": hilo(exp)}), "construction does not produce the documented word (blank if a member is blank)");
            }
            rep.eval(1);
        }
    }
    rep.space("14 x 5 rank/suit enumeration pairs", true, 70);
    // suit signatures
    for (k, sn) in ["CLUBS", "DIAMONDS", "HEARTS", "SPADES"].iter().enumerate() {
        let exp = 1u32 << (12 + k);
        let e2 = o.cards.iter().find(|c| c.suit_name == *sn).map(|c| c.suit_bit << 12).unwrap();
        if suit_enum(sn).binary_signature() != e2 || e2 != exp {
            viol(rep, json!({"op":"create","rank":"ACE","suit":sn}), json!({"sig": e2}), "suit signature is not the documented suit bit");
        }
    }
    if suit_enum("BLANK").binary_signature() != 0 {
        viol(rep, json!({"op":"create","rank":"ACE","suit":"BLANK"}), json!({"sig": 0}), "blank suit signature is not 0");
    }
    // named constants, deck
    for (rn, sn, w, _) in NAMED.iter() {
        let c = o.cards.iter().find(|c| c.rank_name == *rn && c.suit_name == *sn).unwrap();
        if *w != c.w {
            viol(rep, json!({"op":"create","rank":rn,"suit":sn}), json!({"named_constant": hilo(c.w)}), "named constant is not the documented word");
        }
        rep.eval(1);
    }
    let deck = POKER_DECK.arr();
    for c in &o.cards {
        if deck[c.i] != c.w || Deck::get(c.i) != c.w {
            viol(rep, json!({"op":"deck_get","index":limbs(c.i as u64)}), json!({"res": hilo(c.w)}), "deck entry is not the documented word");
        }
        rep.eval(2);
    }
    // accessors on the 52 cards and blank
    let mut subjects: Vec<(u32, Value)> = o
        .cards
        .iter()
        .map(|c| {
            (
                c.w,
                json!({"rank": title(&c.rank_name), "suit": title(&c.suit_name), "prime": c.prime, "rank_bit": c.rank_bit,
                       "rank_flag": hilo(c.rank_bit << 16), "suit_bit": c.suit_bit, "suit_flag": c.suit_bit << 12,
                       "rank_char": c.rank_char as u32, "suit_char": c.suit_char as u32, "suit_letter": c.suit_letter as u32,
                       "blank": false}),
            )
        })
        .collect();
    subjects.push((
        0,
        json!({"rank": "BLANK", "suit": "BLANK", "prime": 0, "rank_bit": 0, "rank_flag": hilo(0), "suit_bit": 0, "suit_flag": 0,
               "rank_char": '_' as u32, "suit_char": '_' as u32, "suit_letter": '_' as u32, "blank": true}),
    ));
    for (w, exp) in subjects {
        let ev = json!({"op":"acc","w":hilo(w)});
        let got = observe(&ev);
        let mut bad = false;
        for (k, v) in exp.as_object().unwrap() {
            if &got[k] != v {
                bad = true;
            }
        }
        if bad && w == 0 {
            advise(rep, ev, exp, "accessors on the blank card drift (the statement speaks of the 52 cards)");
        } else if bad {
            viol(rep, ev, exp, "accessor does not read the documented field back");
        }
        rep.eval(11);
    }
    rep.sample(observe(&json!({"op":"acc","w":hilo(o.cards[0].w)})));
    // the filter over all 2^32 words
    all_words(|w| {
        let e = if is_card(o, w) { w } else { 0 };
        if guarded(|| (CardNumber::filter(w), <CKCNumber as PokerCard>::filter(w))) != Ok((e, e)) {
            viol(rep, json!({"op":"filter","w":hilo(w)}), json!({"res": hilo(e), "res2": hilo(e)}), "filter does not pass exactly the 52 card words");
        }
    });
    rep.eval(1u64 << 33);
    rep.distinct((1u64 << 32) + 70 + 53);
    rep.space("all 2^32 words through the card filter", true, 1u64 << 32);
}

fn title(s: &str) -> String {
    s.to_string()
}

/// Word kinds used to build near-miss hands.
pub fn kind_word(o: &Oracle, kind: usize, rng: &mut Rng) -> u32 {
    let c = o.cards[rng.below(52) as usize].w;
    match kind {
        0 => c,
        1 => 0,
        2 => c ^ (1u32 << rng.below(32)),             // single-bit corruption of a card
        3 => c | (1u32 << (29 + rng.below(3) as u32)), // flagged card
        4 => u32::MAX,
        5 => rng.below(64) as u32,                     // small integer (incl. prime-only words)
        6 => c & 0x1FFF_0000,                          // rank bit only
        7 => c & 0x0000_FFFF,                          // no rank bit
        8 => {
            // upper half (rank flag) of one card, lower half (suit, rank number, prime) of another
            let d = o.cards[rng.below(52) as usize].w;
            (c & 0xFFFF_0000) | (d & 0x0000_FFFF)
        }
        _ => {
            // every field from a different card: rank flag, suit flag, rank number, prime
            let (d, e, f) = (o.cards[rng.below(52) as usize].w, o.cards[rng.below(52) as usize].w, o.cards[rng.below(52) as usize].w);
            (c & 0xFFFF_0000) | (d & 0xF000) | (e & 0x0F00) | (f & 0x00FF)
        }
    }
}
pub const KINDS: usize = 10;

fn check_validity(o: &Oracle, rep: &Report, w: &[u32]) {
    let n = w.len();
    let mut valid = true;
    for i in 0..n {
        if !is_card(o, w[i]) {
            valid = false;
        }
        for j in 0..i {
            if w[i] == w[j] {
                valid = false;
            }
        }
    }
    let h = Hand::from_words(w);
    let got = guarded(|| (h.is_valid(), h.is_corrupt(), h.are_unique(), h.contain_blank()));
    match got {
        Ok((v, corrupt, unique, blank)) => {
            if v != valid {
                viol(rep, json!({"op":"valid","words":hilo_arr(w)}), json!({"valid": valid}), "is_valid differs from: every slot a card word and no two slots equal");
            }
            let e_corrupt = w.iter().any(|x| !is_card(o, *x));
            let mut e_unique = true;
            for i in 0..n {
                for j in 0..i {
                    if w[i] == w[j] {
                        e_unique = false;
                    }
                }
            }
            // named deviation of the specification (Containers!UniqueAsWritten): the six/seven-slot scan starts
            // from u32::MAX, so a hand that holds 0xFFFFFFFF is reported not unique even when it is
            let e_unique = if n >= 6 && w.contains(&u32::MAX) { false } else { e_unique };
            if corrupt != e_corrupt || blank != w.contains(&0) || unique != e_unique {
                advise(rep, json!({"op":"valid","words":hilo_arr(w)}), json!({"corrupt": e_corrupt, "unique": e_unique, "has_blank": w.contains(&0)}), "is_corrupt / are_unique / contain_blank drift");
            }
        }
        Err(_) => viol(rep, json!({"op":"valid","words":hilo_arr(w)}), json!({"valid": valid}), "validity test unwound"),
    }
    rep.eval(4);
    if n >= 5 {
        // C04 relates validated ranking to validity and to unvalidated ranking (code against code): 0 exactly
        // for a non-hand, otherwise the same (non-zero) value as unvalidated ranking.  What that value is
        // belongs to C01 / C02, what the rank record says to C06.
        let got = guarded(|| {
            let a = rank_value_validated(&h);
            let b = hand_rank_validated(&h).value;
            let c = if n == 5 { ckc_rs::evaluate::five_cards([w[0], w[1], w[2], w[3], w[4]]) } else { a };
            let d = if valid { rank_value(&h) } else { 0 };
            (a, b, c, d)
        });
        match got {
            Ok((a, b, c, d)) => {
                let ok = if valid { d != 0 && a == d && b == d && c == d } else { a == 0 && b == 0 && c == 0 };
                if !ok {
                    let e = if valid { d } else { 0 };
                    viol(rep, json!({"op":"valid","words":hilo_arr(w)}),
                         json!({"v_validated": e, "v_rank_validated": e}),
                         "validated ranking is not 0 exactly for non-hands and the unvalidated value otherwise");
                }
                if valid {
                    let mut idx: Vec<usize> = w.iter().map(|x| o.word_to_card[x]).collect();
                    idx.sort_unstable();
                    if d != o.best_of(&idx) {
                        advise(rep, json!({"op":"valid","words":hilo_arr(w)}), json!({"v_value": o.best_of(&idx)}), "value of a valid hand differs from the best five-card value (C01 / C02, not C04)");
                    }
                }
            }
            Err(_) => viol(rep, json!({"op":"valid","words":hilo_arr(w)}), json!({"v_validated": 0}), "validated ranking unwound"),
        }
        rep.eval(4);
    }
}

/// set partitions of 0..n as restricted growth strings
fn partitions(n: usize) -> Vec<Vec<usize>> {
    fn rec(cur: &mut Vec<usize>, maxb: usize, n: usize, out: &mut Vec<Vec<usize>>) {
        if cur.len() == n {
            out.push(cur.clone());
            return;
        }
        for b in 0..=maxb {
            cur.push(b);
            rec(cur, maxb.max(b + 1), n, out);
            cur.pop();
        }
    }
    let mut out = vec![];
    rec(&mut vec![], 0, n, &mut out);
    out
}

pub fn c04(o: &Oracle, thorough: bool, seed: u64, rep: &Report) {
    // per-slot recogniser: every word, as one slot of a two-slot hand next to a fixed card
    let partner = o.cards[17].w;
    all_words(|w| {
        let e = if is_card(o, w) { w } else { 0 };
        let t = Hand::from_words(&[w, partner]);
        let e_valid = e != 0 && w != partner;
        if guarded(|| CardNumber::filter(w)) != Ok(e) {
            // the recogniser itself is C10's statement; C04 speaks of the validity of hands
            advise(rep, json!({"op":"filter","w":hilo(w)}), json!({"res": hilo(e)}), "card recogniser does not accept exactly the 52 card words (C10, not C04)");
        }
        if guarded(|| t.is_valid()) != Ok(e_valid) {
            viol(rep, json!({"op":"valid","words":hilo_arr(&[w, partner])}), json!({"valid": e_valid}), "is_valid differs from: every slot a card word and no two slots equal");
        }
    });
    rep.eval(1u64 << 33);
    rep.space("all 2^32 words as one slot of a two-slot hand", true, 1u64 << 32);

    // whole hands: every equality pattern of the slots x every word kind per block
    let kinds = KINDS;
    let total = AtomicU64::new(0);
    for n in 2..=7usize {
        let parts = partitions(n);
        par_chunks(parts.len(), |pi| {
            let p = &parts[pi];
            let blocks = p.iter().max().unwrap() + 1;
            let combos = kinds.pow(blocks as u32);
            // cap the largest cells in the quick tier by striding
            let stride = if !thorough && combos > 40_000 { combos / 40_000 + 1 } else { 1 };
            let mut rng = Rng::new(seed ^ ((n as u64) << 32) ^ pi as u64);
            let mut k = rng.below(stride as u64) as usize;
            while k < combos {
                let mut kk = k;
                let mut bw = vec![0u32; blocks];
                for b in 0..blocks {
                    bw[b] = kind_word(o, kk % kinds, &mut rng);
                    kk /= kinds;
                }
                let w: Vec<u32> = p.iter().map(|&b| bw[b]).collect();
                check_validity(o, rep, &w);
                total.fetch_add(1, Ordering::Relaxed);
                k += stride;
            }
        });
    }
    // all-card hands in the same equality patterns (so valid hands are well represented)
    let mut rng = Rng::new(seed ^ 0xC04);
    for n in 2..=7usize {
        for p in partitions(n) {
            for _ in 0..(if thorough { 200 } else { 20 }) {
                let blocks = p.iter().max().unwrap() + 1;
                let mut deck: Vec<usize> = (0..52).collect();
                rng.shuffle(&mut deck);
                let bw: Vec<u32> = (0..blocks).map(|b| o.cards[deck[b]].w).collect();
                let w: Vec<u32> = p.iter().map(|&b| bw[b]).collect();
                check_validity(o, rep, &w);
                total.fetch_add(1, Ordering::Relaxed);
            }
        }
    }
    // seeded uniformly random words
    for n in 2..=7usize {
        for _ in 0..(if thorough { 500_000 } else { 50_000 }) {
            let w: Vec<u32> = (0..n).map(|_| rng.u32()).collect();
            check_validity(o, rep, &w);
            total.fetch_add(1, Ordering::Relaxed);
        }
    }
    // words assembled from the fields of different cards (each field valid on its own, the word not a card
    // unless all fields come from the same card), in every slot of every size, next to distinct real cards
    {
        let mut mixes: Vec<u32> = vec![];
        for a in &o.cards {
            for b in &o.cards {
                mixes.push((a.w & 0xFFFF_0000) | (b.w & 0x0000_FFFF));
            }
        }
        for rf in 0..13usize {
            for su in 0..4usize {
                for rn in 0..13usize {
                    for pr in 0..13usize {
                        mixes.push((o.cards[rf].w & 0xFFFF_0000) | (o.cards[su * 13].w & 0xF000) | (o.cards[rn].w & 0x0F00) | (o.cards[pr].w & 0x00FF));
                    }
                }
            }
        }
        mixes.sort_unstable();
        mixes.dedup();
        let nm = mixes.len();
        par_chunks(nm, |mi| {
            let x = mixes[mi];
            for n in 2..=7usize {
                for slot in 0..n {
                    // partners: distinct cards that differ from x
                    let mut w: Vec<u32> = vec![];
                    let mut k = (mi * 7 + slot * 11 + n) % 52;
                    while w.len() < n {
                        let c = o.cards[k % 52].w;
                        if c != x && !w.contains(&c) {
                            w.push(c);
                        }
                        k += 5;
                    }
                    w[slot] = x;
                    check_validity(o, rep, &w);
                }
            }
        });
        total.fetch_add((nm * 27) as u64, Ordering::Relaxed);
        rep.space("every word assembled from the fields of up to four different cards (52 x 52 half mixes, 13 x 4 x 13 x 13 field mixes), in every slot of every size next to distinct cards", true, (nm * 27) as u64);
    }
    // every size has its own validity code: the word sweep again through one slot of a three- to seven-slot
    // hand (quick: a seeded eighth of the 2^32 words per size; thorough: all)
    {
        let part: u32 = if thorough { 1 } else { 8 };
        let off = (seed % part as u64) as u32;
        for n in 3..=7usize {
            let slot = ((seed as usize) + n) % n;
            let partners: Vec<u32> = (0..n).map(|k| o.cards[(k * 9 + n) % 52].w).collect();
            all_words(|w| {
                if part > 1 && (w.wrapping_mul(0x9E37_79B1) >> 7) % part != off {
                    return;
                }
                let mut ws = [0u32; 7];
                ws[..n].copy_from_slice(&partners);
                ws[slot] = w;
                let e_valid = is_card(o, w) && partners.iter().enumerate().all(|(k, p)| k == slot || *p != w);
                let h = Hand::from_words(&ws[..n]);
                if guarded(|| h.is_valid()) != Ok(e_valid) {
                    viol(rep, json!({"op":"valid","words":hilo_arr(&ws[..n])}), json!({"valid": e_valid}), "is_valid differs from: every slot a card word and no two slots equal");
                }
            });
            rep.eval((1u64 << 32) / part as u64);
        }
        rep.space("the 2^32 words through one slot of a three-, four-, five-, six- and seven-slot hand (quick: a seeded eighth per size)", thorough, 5 * ((1u64 << 32) / part as u64));
    }
    let t = total.load(Ordering::Relaxed);
    rep.distinct(t);
    rep.space("hands of sizes 2..7: slot equality patterns x word kinds (card, blank, bit-flipped card, flagged card, 0xFFFFFFFF, small integer, rank-bit only, no rank bit, halves of two cards, fields of four cards), plus all-card patterns and random words", false, t);
    rep.sample(json!({"words": hilo_arr(&[o.cards[0].w, o.cards[0].w | (1 << 29), 0, u32::MAX, 23]), "expected_valid": false}));
}

pub fn c11(o: &Oracle, thorough: bool, seed: u64, rep: &Report) {
    // integer order of the implementation's own card words (deck array) vs rank-then-suit
    // the 52 card words are those of the documented layout (that the constants and the deck hold them is C10 / C18)
    let deck: Vec<u32> = o.cards.iter().map(|c| c.w).collect();
    for a in &o.cards {
        for b in &o.cards {
            let wa = deck[a.i];
            let wb = deck[b.i];
            let e = (a.rank, a.suit).cmp(&(b.rank, b.suit));
            if wa.cmp(&wb) != e {
                viol(rep, json!({"op":"deck_get","index":limbs(a.i as u64)}), json!({}), "integer order of two card words is not rank-then-suit");
            }
            rep.eval(1);
        }
        if !(deck[a.i] > CardNumber::BLANK) {
            viol(rep, json!({"op":"deck_get","index":limbs(a.i as u64)}), json!({}), "blank is not below every card");
        }
    }
    rep.space("52 x 52 pairs of card words (as documented) and blank", true, 52 * 52 + 52);
    // sorting: every arrangement over a 7-symbol alphabet, sizes 2..7
    let alpha = [0u32, o.cards[0].w, o.cards[20].w, o.cards[51].w, o.cards[5].w | (1 << 30), u32::MAX, 1];
    let total = AtomicU64::new(0);
    for n in 2..=7usize {
        let count = alpha.len().pow(n as u32);
        par_chunks(count, |k| {
            let mut kk = k;
            let w: Vec<u32> = (0..n)
                .map(|_| {
                    let x = alpha[kk % alpha.len()];
                    kk /= alpha.len();
                    x
                })
                .collect();
            check_sort(rep, &w);
            total.fetch_add(1, Ordering::Relaxed);
        });
    }
    let t = total.load(Ordering::Relaxed);
    rep.space("all arrays of sizes 2..7 over {blank, 3 cards, a flagged card, 0xFFFFFFFF, 1}", true, t);
    // bit-neighbours: words that differ from a base word in one or two bit positions only, in every
    // arrangement (a sort key that drops or reorders some bits shows only on such near-equal words)
    let bases = [0u32, o.cards[0].w, o.cards[30].w, 0x8000_0000, u32::MAX, 0x1234_5678];
    let perms4 = permutations(4);
    let nb = AtomicU64::new(0);
    par_chunks(32 * 32, |bb| {
        let (b1, b2) = (bb / 32, bb % 32);
        if b1 > b2 {
            return;
        }
        for base in bases {
            let four = [base, base ^ (1 << b1), base ^ (1 << b2), base ^ (1 << b1) ^ (1 << b2)];
            for n in 2..=7usize {
                for p in &perms4 {
                    // the four neighbours in this order fill the first slots (cyclically), then the base
                    let w: Vec<u32> = (0..n).map(|k| if k < 4 || n > 4 { four[p[k % 4]] } else { base }).collect();
                    check_sort(rep, &w);
                    nb.fetch_add(1, Ordering::Relaxed);
                }
            }
        }
    });
    rep.space("bit-neighbour arrays: a base word with one or two bits flipped, all bit pairs x 6 bases x sizes 2..7 x 24 arrangements", true, nb.load(Ordering::Relaxed));
    // the scenario the multiples flags exist for: take distinct cards (any order, or already sorted),
    // validate / inspect the hand, mark some of its cards, then sort -- on ONE live container
    {
        let mut rng = Rng::new(seed ^ 0x3A4C);
        let sc = if thorough { 400_000 } else { 60_000 };
        for k in 0..sc {
            let n = 2 + (k % 6) as usize;
            let mut d: Vec<usize> = (0..52).collect();
            rng.shuffle(&mut d);
            let mut w: Vec<u32> = d.iter().take(n).map(|&i| o.cards[i].w).collect();
            if k % 2 == 0 {
                w.sort_unstable_by(|a, b| b.cmp(a));
            }
            let mut h = Hand::from_words(&w);
            let r = guarded(|| {
                // read-only calls first
                let _ = (h.is_valid(), h.are_unique(), h.is_corrupt(), h.contain_blank(), h.first());
                if n >= 5 && k % 3 == 0 {
                    let _ = rank_value_validated(&h);
                }
                if k % 5 == 0 {
                    let _ = h.sort();
                }
                // mark one to three cards through the setters
                let marks = 1 + (k / 7) % 3;
                for m in 0..marks {
                    let slot = rng.below(n as u64) as usize;
                    let v = h.get(slot);
                    let f = match (m + k) % 3 { 0 => v.flag_as_pair(), 1 => v.flag_as_trips(), _ => v.flag_as_quads() };
                    h.set(slot, f);
                }
                let cur = h.to_arr();
                let mut e = cur.clone();
                e.sort_unstable_by(|a, b| b.cmp(a));
                let c = h.sort().to_arr();
                h.sort_in_place();
                (cur, e, c, h.to_arr())
            });
            match r {
                Ok((cur, e, c, g)) => {
                    if c != e || g != e {
                        viol(rep, json!({"op":"sort","pre":hilo_arr(&cur)}), json!({"copy": hilo_arr(&e), "inplace": hilo_arr(&e), "again": hilo_arr(&e)}),
                             "after validating a hand and marking some of its cards on the same container, sorting is not the non-increasing rearrangement (the result depends on the calls made before)");
                    }
                }
                Err(_) => viol(rep, json!({"op":"sort","pre":hilo_arr(&w)}), json!({}), "validate / mark / sort scenario unwound"),
            }
            rep.eval(4);
        }
        rep.space("history probe: validate -> mark through setters -> sort on one live container, sizes 2..7", false, sc);
    }
    // every set of 2..6 real cards (seven: a seeded 1/16; thorough: all), in a seeded slot order
    {
        let mut sets = 0u64;
        for n in 2..=7usize {
            let perms = permutations(n);
            let cnt = AtomicU64::new(0);
            let stride: u64 = if n == 7 && !thorough { 16 } else { 1 };
            par_subsets(n, |idx, ctr| {
                let pick = mix(seed ^ 0x5e7 ^ n as u64, ctr);
                if pick % stride != 0 {
                    return;
                }
                let canon = o.words(idx);
                let p = &perms[((pick >> 8) % perms.len() as u64) as usize];
                let w: Vec<u32> = p.iter().map(|&k| canon[k]).collect();
                check_sort(rep, &w);
                cnt.fetch_add(1, Ordering::Relaxed);
            });
            sets += cnt.load(Ordering::Relaxed);
        }
        rep.space("every set of 2..6 real cards and (quick: 1/16 of) the seven-card sets, each in a seeded slot order", thorough, sets);
    }
    let mut rng = Rng::new(seed ^ 0x50F7);
    let reps = if thorough { 2_000_000 } else { 100_000 };
    for n in 2..=7usize {
        for _ in 0..reps {
            let w: Vec<u32> = (0..n).map(|_| if rng.below(4) == 0 { o.cards[rng.below(52) as usize].w } else { rng.u32() }).collect();
            check_sort(rep, &w);
        }
    }
    rep.distinct(t + reps * 6);
    rep.space("seeded random word arrays of sizes 2..7", false, reps * 6);
    rep.sample(json!({"pre": hilo_arr(&[alpha[6], alpha[1], alpha[5]]), "sorted": hilo_arr(&[alpha[5], alpha[1], alpha[6]])}));
}

fn check_sort(rep: &Report, w: &[u32]) {
    let mut e = w.to_vec();
    e.sort_unstable_by(|a, b| b.cmp(a));
    let h = Hand::from_words(w);
    let got = guarded(|| {
        let c = h.sort();
        let mut g = h;
        g.sort_in_place();
        (c.to_arr(), g.to_arr(), c.sort().to_arr(), h.to_arr())
    });
    match got {
        Ok((c, g, again, orig)) => {
            if c != e || g != e || again != e || orig != w {
                viol(rep, json!({"op":"sort","pre":hilo_arr(w)}), json!({"copy": hilo_arr(&e), "inplace": hilo_arr(&e), "again": hilo_arr(&e)}),
                     "sorting is not the non-increasing rearrangement of the same words (idempotent, copy = in place)");
            }
        }
        Err(_) => viol(rep, json!({"op":"sort","pre":hilo_arr(w)}), json!({"copy": hilo_arr(&e)}), "sort unwound"),
    }
    rep.eval(3);
}

pub fn c19(o: &Oracle, thorough: bool, seed: u64, rep: &Report) {
    let mut rng = Rng::new(seed ^ 0xC19);
    let steps = if thorough { 200_000 } else { 20_000 };
    let mut histories = 0u64;
    for n in 2..=7usize {
        for hist in 0..8 {
            // a live container and a plain array model
            let init: Vec<u32> = (0..n).map(|k| if hist >= 4 { kind_word(o, (k + hist) % 8, &mut rng) } else { rng.u32() }).collect();
            let mut h = if hist % 2 == 0 { Hand::from_words(&init) } else { Hand::from_parts(&init) };
            let mut model = init.clone();
            let ctor = if hist % 2 == 0 { "c_from" } else { "c_parts" };
            if h.to_arr() != model || h.accessors() != model || h.iter_vec() != model {
                viol(rep, json!({"op":ctor,"words":hilo_arr(&init)}), json!({"post": hilo_arr(&model), "acc": hilo_arr(&model), "iter": hilo_arr(&model)}), "constructed container does not hold the given words in the given slots");
            }
            for _ in 0..steps / 8 {
                let slot = rng.below(n as u64) as usize;
                // arbitrary words, with the words a container is most likely to treat specially well represented
                let w = match rng.below(6) {
                    0 => 0,
                    1 => u32::MAX,
                    2 | 3 => kind_word(o, rng.below(8) as usize, &mut rng),
                    _ => rng.u32(),
                };
                let pre = model.clone();
                h.set(slot, w);
                model[slot] = w;
                let views = (h.to_arr(), h.accessors(), h.iter_vec(), h.first());
                if views.0 != model || views.1 != model || views.2 != model || views.3 != model[0] {
                    viol(rep, json!({"op":"c_set","pre":hilo_arr(&pre),"slot":slot,"w":hilo(w)}), json!({"post": hilo_arr(&model), "acc": hilo_arr(&model), "iter": hilo_arr(&model)}),
                         "a slot setter changed something other than exactly the named slot");
                    h = Hand::from_words(&model);
                }
                rep.eval(4);
            }
            histories += 1;
        }
        // every slot of every size as the written slot, on distinct recognisable words
        for slot in 0..n {
            let pre: Vec<u32> = (0..n).map(|k| 0x1111_1111u32.wrapping_mul(k as u32 + 1)).collect();
            let mut h = Hand::from_words(&pre);
            h.set(slot, 0xABCD_EF01);
            let mut e = pre.clone();
            e[slot] = 0xABCD_EF01;
            if h.to_arr() != e || h.accessors() != e || h.iter_vec() != e {
                viol(rep, json!({"op":"c_set","pre":hilo_arr(&pre),"slot":slot,"w":hilo(0xABCD_EF01)}), json!({"post": hilo_arr(&e), "acc": hilo_arr(&e), "iter": hilo_arr(&e)}), "a slot setter changed something other than exactly the named slot");
            }
            rep.eval(3);
        }
        if Hand::default_of(n).to_arr() != vec![0u32; n] {
            advise(rep, json!({"op":"c_default","n":n}), json!({"post": hilo_arr(&vec![0u32; n])}), "default container is not all blank");
        }
    }
    rep.space("seeded constructor/setter histories on Two..Seven with arbitrary words", false, histories);
    // both constructors on every pattern of {blank, a word of its own per slot, 0xFFFFFFFF} over the slots
    // (a constructor that trims, compacts, sorts or normalises its input shows on blanks in leading or
    // interior slots and on words out of order)
    {
        let mut arrays = 0u64;
        for n in 2..=7usize {
            for style in 0..3 {
                // own words: ascending cards, descending cards, arbitrary non-card words
                let own: Vec<u32> = (0..n).map(|k| match style { 0 => o.cards[51 - 6 * k].w, 1 => o.cards[5 * k + 1].w, _ => 0x0101_0101u32.wrapping_mul(k as u32 + 3) }).collect();
                for code in 0..3usize.pow(n as u32) {
                    let mut cc = code;
                    let w: Vec<u32> = (0..n).map(|k| { let d = cc % 3; cc /= 3; match d { 0 => 0, 1 => own[k], _ => u32::MAX } }).collect();
                    for (ctor, h) in [("c_from", guarded(|| Hand::from_words(&w))), ("c_parts", guarded(|| Hand::from_parts(&w)))] {
                        let ok = match &h { Ok(h) => h.to_arr() == w && h.accessors() == w && h.iter_vec() == w && h.first() == w[0], Err(_) => false };
                        if !ok {
                            viol(rep, json!({"op":ctor,"words":hilo_arr(&w)}), json!({"post": hilo_arr(&w), "acc": hilo_arr(&w), "iter": hilo_arr(&w)}), "constructed container does not hold the given words in the given slots");
                        }
                    }
                    arrays += 1;
                }
            }
        }
        rep.eval(arrays * 8);
        rep.space("both constructors of every size on every pattern of {blank, own word, 0xFFFFFFFF} per slot, three families of own words", true, arrays);
    }
    // writes of words the container already holds: every sequence of three setter calls over a two-word pool,
    // from every initial array over the same pool (a setter that looks at the current contents shows here)
    {
        let pools: [[u32; 2]; 3] = [[o.cards[3].w, o.cards[40].w], [0, o.cards[11].w], [u32::MAX, 0x2000_0000 | o.cards[7].w]];
        let mut seqs = 0u64;
        for n in 2..=7usize {
            for pool in pools {
                for init_bits in 0..(1u32 << n) {
                    let init: Vec<u32> = (0..n).map(|k| pool[((init_bits >> k) & 1) as usize]).collect();
                    let calls = 2 * n;
                    // all sequences of three calls from the first 16 initial arrays, all single and double calls from the rest
                    let depth = if init_bits < 16 { 3 } else { 2 };
                    for code in 0..calls.pow(depth) {
                        let mut h = Hand::from_words(&init);
                        let mut model = init.clone();
                        let mut cc = code;
                        for _ in 0..depth {
                            let c = cc % calls;
                            cc /= calls;
                            let (slot, w) = (c / 2, pool[c % 2]);
                            let pre = model.clone();
                            h.set(slot, w);
                            model[slot] = w;
                            if h.to_arr() != model || h.accessors() != model || h.iter_vec() != model {
                                viol(rep, json!({"op":"c_set","pre":hilo_arr(&pre),"slot":slot,"w":hilo(w)}), json!({"post": hilo_arr(&model), "acc": hilo_arr(&model), "iter": hilo_arr(&model)}),
                                     "a slot setter changed something other than exactly the named slot (write of a word the container already holds)");
                                break;
                            }
                        }
                        seqs += 1;
                    }
                }
            }
        }
        rep.eval(seqs * 3);
        rep.space("every sequence of two (from 16 initial arrays: three) setter calls over a two-word pool, from every initial array over that pool, sizes 2..7, three pools", true, seqs);
    }
    // five-slot selection: every in-range index tuple
    for (n, pool) in [(6usize, 0usize), (7, 0), (6, 1), (7, 1), (6, 2), (7, 2)] {
        // three word pools: random words; every near-miss kind (card, blank, bit-flipped, flagged, all ones,
        // small, rank-bit only, no rank bit); flagged cards of every mark combination
        let w: Vec<u32> = (0..n)
            .map(|k| match pool {
                0 => rng.u32(),
                1 => kind_word(o, k % 8, &mut rng),
                _ => o.cards[rng.below(52) as usize].w | (((k as u32 % 7) + 1) << 29),
            })
            .collect();
        let h = Hand::from_words(&w);
        let count = n.pow(5);
        for k in 0..count {
            let mut kk = k;
            let mut p = [0u8; 5];
            for i in 0..5 {
                p[i] = (kk % n) as u8;
                kk /= n;
            }
            let e: Vec<u32> = p.iter().map(|&i| w[i as usize]).collect();
            let got = guarded(|| h.five_from_permutation(p).unwrap().to_arr().to_vec());
            if got != Ok(e.clone()) {
                viol(rep, json!({"op":"select5","pre":hilo_arr(&w),"perm":p}), json!({"res": hilo_arr(&e)}), "slot-index selection does not return the words at the given slots");
            }
            rep.eval(1);
        }
        rep.space(&format!("all {}^5 index tuples for five-slot selection (word pool {})", n, pool), true, count as u64);
    }
    rep.distinct(histories * (steps / 8) + 6u64.pow(5) + 7u64.pow(5));
    rep.sample(json!({"op":"c_set","n":5,"slot":2,"note":"container compared with an array model after every step through to_arr, accessors, iter, first"}));
}

pub fn c20(o: &Oracle, _thorough: bool, _seed: u64, rep: &Report) {
    let marks = ["pair", "trips", "quads"];
    let bit = |m: &str| -> u32 { o.flag_word(m) };
    // all sequences of marks up to length 4 (covers every combination, every order, repetition)
    let mut seqs: Vec<Vec<&str>> = vec![vec![]];
    let mut frontier: Vec<Vec<&str>> = vec![vec![]];
    for _ in 0..4 {
        let mut next = vec![];
        for s in &frontier {
            for m in marks {
                let mut t = s.clone();
                t.push(m);
                next.push(t);
            }
        }
        seqs.extend(next.clone());
        frontier = next;
    }
    let mut n = 0u64;
    for c in &o.cards {
        for s in &seqs {
            let mut e = c.w;
            for m in s {
                e |= bit(m);
            }
            let ev = json!({"op":"flag","w":hilo(c.w),"marks":s});
            let got = observe(&ev);
            if got["res"] != hilo(e) || got["stripped"] != hilo(c.w) {
                viol(rep, ev.clone(), json!({"res": hilo(e), "stripped": hilo(c.w)}), "marking does not set exactly the top bits / stripping does not return the card");
            }
            // accessors read the same on the marked word as on the card (code against code: what they read on
            // the card is C10's statement)
            let acc = observe(&json!({"op":"acc","w":hilo(e)}));
            let own = observe(&json!({"op":"acc","w":hilo(c.w)}));
            let mut exp = serde_json::Map::new();
            for k in ["rank", "suit", "prime", "rank_bit", "rank_flag", "suit_bit", "suit_flag", "rank_char", "suit_char", "suit_letter"] {
                exp.insert(k.to_string(), own[k].clone());
            }
            for (k, v) in exp.iter() {
                if &acc[k] != v {
                    viol(rep, json!({"op":"acc","w":hilo(e)}), Value::Object(exp.clone()), "an accessor reads differently on a marked word than on the card");
                    break;
                }
            }
            // order: every marked word is above every unmarked card; the highest mark dominates
            if !s.is_empty() {
                for d in &o.cards {
                    if !(e > d.w) {
                        viol(rep, ev.clone(), json!({"res": hilo(e)}), "a marked word is not above every unmarked card");
                    }
                }
            }
            n += 1;
        }
    }
    // quads above trips above pair, for all card pairs
    for a in &o.cards {
        for b in &o.cards {
            let (q, t, p) = (a.w.flag_as_quads(), b.w.flag_as_trips(), b.w.flag_as_pair());
            let (t2, p2) = (a.w.flag_as_trips(), a.w.flag_as_pair());
            if !(q > t && q > p && t2 > p && t > p2 && p > a.w && p2 > b.w) {
                viol(rep, json!({"op":"flag","w":hilo(a.w),"marks":["quads"]}), json!({}), "quads / trips / pair marks do not order words by mark");
            }
        }
    }
    // the sorting priority the marks exist to give, on the containers themselves: distinct cards, some of
    // them marked, sorted -- marked words first, quads before trips before pair, unmarked cards last
    {
        let mut rng = Rng::new(_seed ^ 0xC20);
        let mut cases = 0u64;
        for n in 2..=7usize {
            for k in 0..4000usize {
                let mut d: Vec<usize> = (0..52).collect();
                rng.shuffle(&mut d);
                let mut w: Vec<u32> = d.iter().take(n).map(|&i| o.cards[i].w).collect();
                // mark pattern: base-4 digits of k (0 none, 1 pair, 2 trips, 3 quads), at least one mark
                let mut kk = k + 1;
                for x in w.iter_mut() {
                    *x = match kk % 4 { 0 => *x, 1 => x.flag_as_pair(), 2 => x.flag_as_trips(), _ => x.flag_as_quads() };
                    kk /= 4;
                }
                let h = Hand::from_words(&w);
                let key = |x: u32| -> u32 { if x & bit("quads") != 0 { 3 } else if x & bit("trips") != 0 { 2 } else if x & bit("pair") != 0 { 1 } else { 0 } };
                let got = guarded(|| {
                    let c = h.sort().to_arr();
                    let mut g = h;
                    g.sort_in_place();
                    (c, g.to_arr())
                });
                let mut e = w.clone();
                e.sort_unstable_by(|a, b| b.cmp(a));
                let by_mark = e.windows(2).all(|p| key(p[0]) >= key(p[1]));
                match got {
                    Ok((c, g)) => {
                        // numerically the marks dominate (that is C20, and what `by_mark` says of the word order);
                        // that the containers sort by the numeric order is C11's statement: advisory here
                        if !by_mark {
                            viol(rep, json!({"op":"sort","pre":hilo_arr(&w)}), json!({"copy": hilo_arr(&e), "inplace": hilo_arr(&e)}),
                                 "the numeric order of marked and unmarked words does not put quads before trips before pair before unmarked cards");
                        } else if c != e || g != e {
                            advise(rep, json!({"op":"sort","pre":hilo_arr(&w)}), json!({"copy": hilo_arr(&e), "inplace": hilo_arr(&e)}),
                                   "a container does not sort marked cards first (sorting is C11's statement)");
                        }
                    }
                    Err(_) => advise(rep, json!({"op":"sort","pre":hilo_arr(&w)}), json!({"copy": hilo_arr(&e)}), "sort unwound (C11)"),
                }
                cases += 1;
            }
        }
        rep.eval(cases * 2);
        rep.space("hands of sizes 2..7 of distinct cards with every small pattern of marks, sorted by the container (copy and in place)", false, cases);
    }
    rep.eval(n * 60);
    rep.distinct(n);
    rep.space("52 cards x every mark sequence up to length 4 (all 8 combinations, every order, repeated) x 52 unmarked cards", true, n * 52);
    rep.sample(observe(&json!({"op":"flag","w":hilo(o.cards[0].w),"marks":["pair","quads","pair"]})));
}
