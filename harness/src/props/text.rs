//! C12: text parsing.

use super::*;
use crate::observe::cps;
use ckc_rs::{CardRank, CardSuit};

fn rank_name_of(o: &Oracle, c: char) -> String {
    match o.rank_syms.get(&(c as u32)) {
        Some(r) => o.cards.iter().find(|k| k.rank == *r).unwrap().rank_name.clone(),
        None => "BLANK".to_string(),
    }
}
fn suit_name_of(o: &Oracle, c: char) -> String {
    match o.suit_syms.get(&(c as u32)) {
        Some(s) => o.cards.iter().find(|k| k.suit == *s).unwrap().suit_name.clone(),
        None => "BLANK".to_string(),
    }
}
/// expected word of a token, by the symbol tables of the specification
pub fn token_word(o: &Oracle, tok: &str) -> u32 {
    let mut it = tok.chars();
    let (a, b) = match (it.next(), it.next()) {
        (Some(a), Some(b)) => (a, b),
        _ => return 0,
    };
    match (o.rank_syms.get(&(a as u32)), o.suit_syms.get(&(b as u32))) {
        (Some(r), Some(s)) => o.cards.iter().find(|k| k.rank == *r && k.suit == *s).unwrap().w,
        _ => 0,
    }
}
/// split on the specification's whitespace set
pub fn split_ws<'a>(o: &Oracle, s: &'a str) -> Vec<&'a str> {
    s.split(|c: char| o.whitespace.contains(&(c as u32))).filter(|t| !t.is_empty()).collect()
}

fn check_card(o: &Oracle, rep: &Report, s: &str) {
    let e = token_word(o, s);
    let ev = json!({"op":"parse_card","s":cps(s)});
    let got = observe(&ev);
    if got["ok"] != json!(true) || got["res"] != hilo(e) {
        viol(rep, ev, json!({"ok": true, "res": hilo(e)}), "a token parses to a card exactly when it starts with a rank symbol then a suit symbol");
    }
    rep.eval(1);
}

fn check_hand(o: &Oracle, rep: &Report, n: usize, s: &str) {
    let toks = split_ws(o, s);
    let ev = json!({"op":"parse_hand","n":n,"s":cps(s)});
    let got = observe(&ev);
    if toks.len() < n {
        if got["kind"] != json!("InvalidIndex") || (n == 5 && got["free_kind"] != json!("None")) {
            viol(rep, ev, json!({"kind": "InvalidIndex"}), "parsing a hand does not fail when the text has fewer tokens than the hand has slots");
        }
    } else if toks.len() == n {
        let e: Vec<u32> = toks.iter().map(|t| token_word(o, t)).collect();
        if got["kind"] != json!("ok") || got["res"] != hilo_arr(&e) || (n == 5 && got["free"] != hilo_arr(&e)) {
            viol(rep, ev, json!({"kind": "ok", "res": hilo_arr(&e)}), "parsing a hand does not fill the slots in token order");
        }
    } else {
        // more tokens than slots: the statement is silent; the code takes the first n (advisory)
        let e: Vec<u32> = toks.iter().take(n).map(|t| token_word(o, t)).collect();
        if got["kind"] == json!("panic") {
            viol(rep, ev, json!({"kind": "ok"}), "parsing unwound");
        } else if got["res"] != hilo_arr(&e) {
            advise(rep, ev, json!({"res": hilo_arr(&e)}), "extra tokens are no longer ignored");
        }
    }
    rep.eval(1);
}

pub fn c12(o: &Oracle, thorough: bool, seed: u64, rep: &Report) {
    // the specification's whitespace set must be what the platform splits on (else: tool error)
    for cp in 0..=0x10FFFFu32 {
        if let Some(c) = char::from_u32(cp) {
            if c.is_whitespace() != o.whitespace.contains(&cp) {
                rep.note(format!("TOOLERROR whitespace set of the specification differs from char::is_whitespace at U+{:04X}", cp));
            }
        }
    }
    // every Unicode scalar value through the two symbol tables
    let mut scalars = 0u64;
    for cp in 0..=0x10FFFFu32 {
        if let Some(c) = char::from_u32(cp) {
            scalars += 1;
            let er = rank_name_of(o, c);
            let es = suit_name_of(o, c);
            let gr = format!("{:?}", CardRank::from_char(c));
            let gs = format!("{:?}", CardSuit::from_char(c));
            if gr != er {
                viol(rep, json!({"op":"rank_sym","cp":cp}), json!({"res": er}), "rank symbol table differs");
            }
            if gs != es {
                viol(rep, json!({"op":"suit_sym","cp":cp}), json!({"res": es}), "suit symbol table differs");
            }
        }
    }
    rep.eval(scalars * 2);
    rep.space("every Unicode scalar value through the rank and suit symbol tables", true, scalars);
    // ... and through the token parser itself, in each of the two deciding positions (a case fold or
    // normalisation step inside the parser would not show in the symbol tables)
    {
        use ckc_rs::{CKCNumber, PokerCard};
        let chunks: Vec<u32> = (0..=0x10FFu32).collect();
        par_chunks(chunks.len(), |ci| {
            let mut buf = String::new();
            for cp in (chunks[ci] << 8)..((chunks[ci] + 1) << 8) {
                let c = match char::from_u32(cp) {
                    Some(c) => c,
                    None => continue,
                };
                for (first, tail) in [(true, "S"), (true, "♦x"), (false, "K"), (false, "5")] {
                    buf.clear();
                    if first {
                        buf.push(c);
                        buf.push_str(tail);
                    } else {
                        buf.push_str(tail);
                        buf.push(c);
                        buf.push('z');
                    }
                    let e = token_word(o, &buf);
                    let got = guarded(|| (CKCNumber::from_index(&buf), ckc_rs::parse::get_rank_and_suit(&buf)));
                    // strict: the parsed card; the individual (rank, suit) halves of get_rank_and_suit are
                    // not part of the statement (advisory)
                    let ok = match &got {
                        Ok((w, _)) => *w == e,
                        Err(_) => false,
                    };
                    if let Ok((_, (r, su))) = &got {
                        let mut it = buf.chars();
                        let (a, b) = (it.next().unwrap(), it.next().unwrap());
                        if format!("{:?}", r) != rank_name_of(o, a) || format!("{:?}", su) != suit_name_of(o, b) {
                            advise(rep, json!({"op":"parse_card","s":cps(&buf)}), json!({"rank": rank_name_of(o, a), "suit": suit_name_of(o, b)}), "get_rank_and_suit halves drift");
                        }
                    }
                    if !ok {
                        viol(rep, json!({"op":"parse_card","s":cps(&buf)}), json!({"ok": true, "res": hilo(e)}),
                             "a token parses to a card exactly when it starts with a rank symbol then a suit symbol");
                    }
                }
            }
        });
        rep.eval(scalars * 4);
        rep.space("every Unicode scalar value as the first and as the second character of a token, through the token parser", true, scalars * 4);
    }

    // every ordered pair of leading characters from the alphabet, with tails
    let mut alpha: Vec<char> = vec![];
    for cp in o.rank_syms.keys().chain(o.suit_syms.keys()) {
        alpha.push(char::from_u32(*cp).unwrap());
    }
    alpha.extend(['1', 'x', 'Z', '_', '-', ' ', '\t', '\u{a0}', '\u{3000}', '\u{0}', 'é', '\u{301}', '€', '♞', '😀', '\u{10FFFF}', '\u{FE0F}']);
    alpha.sort_unstable();
    alpha.dedup();
    let tails = ["", "x", "s", "♠", "AS", " KD", "\u{301}", "😀😀", "0000000000000000000000000000000000000000"];
    let mut n = 0u64;
    for a in &alpha {
        check_card(o, rep, &a.to_string());
        for b in &alpha {
            for t in tails.iter() {
                let s = format!("{}{}{}", a, b, t);
                check_card(o, rep, &s);
                n += 1;
            }
        }
    }
    check_card(o, rep, "");
    rep.space("every ordered pair of leading characters over {all 35 symbols, '1', separators, 2-/3-/4-byte characters, NUL, U+10FFFF, a combining mark} x 9 tails", true, n);

    // history: a real card token, then at once a token whose deciding characters are bit-neighbours of the
    // real ones (one bit of the code point flipped, any of the 21 bits) -- and the other way round
    {
        use ckc_rs::{CKCNumber, PokerCard};
        let mut pairs = 0u64;
        let rs: Vec<char> = o.rank_syms.keys().map(|c| char::from_u32(*c).unwrap()).collect();
        let ss: Vec<char> = o.suit_syms.keys().map(|c| char::from_u32(*c).unwrap()).collect();
        for &r in &rs {
            for &su in &ss {
                let real = format!("{}{}", r, su);
                for bit in 0..21u32 {
                    for pos in 0..2 {
                        let c0 = if pos == 0 { r } else { su };
                        let n = match char::from_u32(c0 as u32 ^ (1 << bit)) {
                            Some(c) => c,
                            None => continue,
                        };
                        let twin = if pos == 0 { format!("{}{}", n, su) } else { format!("{}{}", r, n) };
                        for order in 0..2 {
                            let (first, second) = if order == 0 { (&real, &twin) } else { (&twin, &real) };
                            let e = token_word(o, second);
                            let got = guarded(|| {
                                let _ = CKCNumber::from_index(first);
                                CKCNumber::from_index(second)
                            });
                            pairs += 1;
                            if got != Ok(e) {
                                viol(rep, json!({"op":"parse_card","s":cps(second)}), json!({"ok": true, "res": hilo(e)}),
                                     "parsing a token right after a token that differs from it in one bit of one code point gives the wrong card (the result depends on the call made before)");
                            }
                        }
                    }
                }
            }
        }
        rep.eval(pairs * 2);
        rep.space("history probe: every rank+suit token followed by / preceded by each of its one-bit code-point neighbours", true, pairs);
    }
    // round trip: 52 cards x 2 renderings
    for c in &o.cards {
        for s in [format!("{}{}", c.rank_char, c.suit_char), format!("{}{}", c.rank_char, c.suit_letter)] {
            let ev = json!({"op":"parse_card","s":cps(&s)});
            let got = observe(&ev);
            // the rendering characters are the code's own accessors
            let acc = observe(&json!({"op":"acc","w":hilo(c.w)}));
            let own = [acc["rank_char"].as_u64().unwrap() as u32, acc["suit_char"].as_u64().unwrap() as u32, acc["suit_letter"].as_u64().unwrap() as u32];
            let s1: String = [own[0], own[1]].iter().map(|x| char::from_u32(*x).unwrap()).collect();
            let s2: String = [own[0], own[2]].iter().map(|x| char::from_u32(*x).unwrap()).collect();
            let g1 = observe(&json!({"op":"parse_card","s":cps(&s1)}));
            let g2 = observe(&json!({"op":"parse_card","s":cps(&s2)}));
            if got["res"] != hilo(c.w) || g1["res"] != hilo(c.w) || g2["res"] != hilo(c.w) {
                viol(rep, ev, json!({"res": hilo(c.w)}), "rendering a card with its rank and suit characters does not parse back to the same card");
            }
            rep.eval(3);
        }
    }
    rep.space("52 cards x 2 renderings round trip", true, 104);

    // hand parsers of sizes 2..7: 0..n+2 tokens, every whitespace character as separator
    let mut rng = Rng::new(seed ^ 0xC12);
    let seps: Vec<String> = o.whitespace.iter().map(|cp| char::from_u32(*cp).unwrap().to_string()).collect();
    let junk = ["", "A", "Zs", "1s", "A1", "10s", "♠A", "AS2", "é♥"];
    let mut hands = 0u64;
    for n in 2..=7usize {
        for ntok in 0..=(n + 2) {
            for (si, sep) in seps.iter().enumerate() {
                let mut toks: Vec<String> = vec![];
                for k in 0..ntok {
                    if (k + si) % 5 == 4 {
                        toks.push(junk[(k + si + n) % junk.len()].to_string());
                    } else {
                        let c = &o.cards[rng.below(52) as usize];
                        toks.push(if rng.below(2) == 0 { format!("{}{}", c.rank_char, c.suit_char) } else { format!("{}{}", c.rank_char.to_ascii_lowercase(), c.suit_letter.to_ascii_lowercase()) });
                    }
                }
                let toks: Vec<String> = toks.into_iter().filter(|t| !t.is_empty()).collect();
                let body = toks.join(sep);
                for s in [body.clone(), format!("{}{}{}", sep, body, sep), toks.join(&format!("{}{}", sep, seps[(si + 1) % seps.len()]))] {
                    check_hand(o, rep, n, &s);
                    hands += 1;
                }
            }
        }
    }
    rep.space("hand parsers of sizes 2..7 x 0..n+2 tokens x every whitespace character as separator (leading, trailing, doubled)", true, hands);

    // every Unicode scalar value through every hand parser: in front of the text, glued behind the first
    // token, between two tokens, and at the end (a parser that trims or skips some character class -- byte
    // order mark, zero-width or format characters -- differs from "split on whitespace, then tokens")
    {
        let chunks: Vec<u32> = (0..=0x10FFu32).collect();
        let bad = AtomicU64::new(0);
        par_chunks(chunks.len(), |ci| {
            let mut text = String::new();
            for cp in (chunks[ci] << 8)..((chunks[ci] + 1) << 8) {
                let c = match char::from_u32(cp) {
                    Some(c) => c,
                    None => continue,
                };
                for n in 2..=7usize {
                    // every size for the Basic Multilingual Plane; one size per code point (rotating) beyond it
                    if cp >= 0x10000 && (cp as usize) % 6 != n - 2 {
                        continue;
                    }
                    let cards: Vec<String> = (0..n).map(|k| { let cd = &o.cards[(cp as usize + k * 9 + n) % 52]; format!("{}{}", cd.rank_char, cd.suit_letter) }).collect();
                    for place in 0..4 {
                        text.clear();
                        match place {
                            0 => { text.push(c); text.push_str(&cards.join(" ")); }
                            1 => { text.push_str(&cards[0]); text.push(c); text.push(' '); text.push_str(&cards[1..].join(" ")); }
                            2 => { text.push_str(&cards[0]); text.push(c); text.push_str(&cards[1..].join(" ")); }
                            _ => { text.push_str(&cards.join(" ")); text.push(c); }
                        }
                        let toks = split_ws(o, &text);
                        let got = guarded(|| Hand::parse(n, &text).map(|h| h.to_arr()));
                        let ok = match &got {
                            Err(_) => false,
                            Ok(r) => {
                                if toks.len() < n {
                                    r.is_err()
                                } else if toks.len() == n {
                                    let e: Vec<u32> = toks.iter().map(|t| token_word(o, t)).collect();
                                    r.as_ref().ok() == Some(&e)
                                } else {
                                    true
                                }
                            }
                        };
                        if !ok && bad.fetch_add(1, Ordering::Relaxed) < 20 {
                            // through the recorded-event path, so that the replay file reproduces it
                            check_hand(o, rep, n, &text);
                        }
                    }
                }
            }
        });
        rep.eval(scalars * 4);
        rep.space("every Unicode scalar value in four placements (leading, glued to a token, between tokens, trailing) through the hand parsers of sizes 2..7 (every size up to U+FFFF, one size per code point beyond)", true, scalars * 4);
    }

    // set parser: folds every token (short texts and texts far longer than a deck)
    for k in 0..400 {
        let ntok = if k < 200 { k % 9 } else { 40 + (k * 7) % 160 };
        let mut toks: Vec<String> = vec![];
        for _ in 0..ntok {
            let c = &o.cards[rng.below(52) as usize];
            toks.push(if rng.below(5) == 0 { junk[rng.below(junk.len() as u64) as usize].to_string() } else { format!("{}{}", c.rank_char, c.suit_letter) });
        }
        let s = toks.join(" ");
        let e = split_ws(o, &s).iter().fold(0u64, |a, t| {
            let w = token_word(o, t);
            a | o.word_to_card.get(&w).map(|&i| 1u64 << o.cards[i].bit).unwrap_or(0)
        });
        let ev = json!({"op":"parse_set","s":cps(&s)});
        let got = observe(&ev);
        if got["ok"] != json!(true) || got["res"] != limbs(e) {
            // the set built from text is C15's statement; C12 runs it for the parser's sake
            advise(rep, ev, json!({"ok": true, "res": limbs(e)}), "set parsed from text is not exactly the distinct real cards among its tokens (C15, not C12)");
        }
        rep.eval(1);
    }

    // seeded arbitrary strings: totality (no unwinding) and the card rule
    let nrand = if thorough { 2_000_000 } else { 200_000 };
    let pool: Vec<char> = {
        let mut p = alpha.clone();
        p.extend(['\u{2028}', '\u{85}', '\u{200B}', '\u{D7FF}', '\u{E000}', '\u{FFFD}']);
        p
    };
    for _ in 0..nrand {
        let len = rng.below(12) as usize;
        let s: String = (0..len)
            .map(|_| {
                if rng.below(3) == 0 {
                    loop {
                        if let Some(c) = char::from_u32(rng.below(0x110000) as u32) {
                            break c;
                        }
                    }
                } else {
                    pool[rng.below(pool.len() as u64) as usize]
                }
            })
            .collect();
        check_card(o, rep, &s);
        let n = 2 + rng.below(6) as usize;
        check_hand(o, rep, n, &s);
    }
    rep.space("seeded arbitrary strings through the card parser and a hand parser", false, nrand);
    rep.distinct(scalars + n + hands + nrand);
    rep.sample(observe(&json!({"op":"parse_card","s":cps("a♠x")})));
    rep.sample(observe(&json!({"op":"parse_hand","n":2,"s":cps("AS\u{a0}kd")})));
}
