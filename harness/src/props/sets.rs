//! C14, C15, C16: 64-bit card sets.

use super::*;
use crate::named::{NAMED, RANK_GROUPS};
use ckc_rs::cards::binary_card::{BinaryCard, BC64};
use ckc_rs::cards::two::Two;
use ckc_rs::{CKCNumber, PokerCard};

fn card_bit(o: &Oracle, w: u32) -> u64 {
    o.word_to_card.get(&w).map(|&i| 1u64 << o.cards[i].bit).unwrap_or(0)
}
fn word_of_bit(o: &Oracle, b: u32) -> u32 {
    o.cards.iter().find(|c| c.bit == b).map(|c| c.w).unwrap_or(0)
}

pub fn c14(o: &Oracle, thorough: bool, seed: u64, rep: &Report) {
    // word -> bit over all 2^32 words
    par_chunks(4096, |c| {
        let base = (c as u32) << 20;
        for k in 0..(1u32 << 20) {
            let w = base | k;
            let e = card_bit(o, w);
            if guarded(|| BinaryCard::from_ckc(w)) != Ok(e) {
                viol(rep, json!({"op":"bc_from_ckc","w":hilo(w)}), json!({"res": limbs(e)}), "word-to-bit conversion is not the card's deck bit (empty for non-cards)");
            }
        }
    });
    rep.eval(1u64 << 32);
    rep.space("all 2^32 words, word to bit", true, 1u64 << 32);
    // bit -> word
    let mut vals: Vec<u64> = vec![0, u64::MAX];
    for a in 0..64 {
        vals.push(1u64 << a);
        for b in 0..a {
            vals.push((1u64 << a) | (1u64 << b));
        }
    }
    for r in runs() {
        vals.push(r);
    }
    // values that look like the other representation: a card word widened to 64 bits, alone, moved to the
    // upper half, and with other bits above it (none of them is a single card bit, except by coincidence
    // of being a power of two below 2^52, which the expectation below accounts for)
    for c in &o.cards {
        let w = c.w as u64;
        vals.push(w);
        vals.push(w << 32);
        vals.push(w | (w << 32));
        for k in 0..32 {
            vals.push(w | (1u64 << (32 + k)));
        }
        vals.push(w | 0xFFFF_FFFF_0000_0000);
        vals.push((c.w.flag_as_pair()) as u64);
        vals.push(1u64 << c.bit | 0xFFFF_FFFF_0000_0000 & !o.all_bits);
    }
    let structured = vals.len() as u64;
    let mut rng = Rng::new(seed ^ 0xC14);
    for _ in 0..(if thorough { 2_000_000 } else { 200_000 }) {
        // seeded: a card word in the low half, arbitrary bits in the high half
        vals.push(o.cards[rng.below(52) as usize].w as u64 | (rng.next() << 32));
    }
    let per = if thorough { 20_000 } else { 2_000 };
    for pc in 0..=64u32 {
        for _ in 0..per {
            // a random value of population count pc
            let mut bits: Vec<u32> = (0..64).collect();
            rng.shuffle(&mut bits);
            let mut x = 0u64;
            for b in bits.iter().take(pc as usize) {
                x |= 1u64 << b;
            }
            vals.push(x);
        }
    }
    for x in &vals {
        let e = if x.count_ones() == 1 && x.trailing_zeros() < 52 { word_of_bit(o, x.trailing_zeros()) } else { 0 };
        if guarded(|| CKCNumber::from_binary_card(*x)) != Ok(e) {
            viol(rep, json!({"op":"ckc_from_bc","bc":limbs(*x)}), json!({"res": hilo(e)}), "bit-to-word conversion is not the card of exactly one card bit (blank otherwise)");
        }
        rep.eval(1);
    }
    rep.space("all 64 single bits, 2,016 two-bit values, every run of consecutive bits, and every card word widened to 64 bits (alone, shifted, with bits above it)", true, structured);
    rep.space("seeded 64-bit values of every population count", false, vals.len() as u64 - structured);
    // round trip, constants, deck of bits, masks, rank groups
    let bdeck = <BinaryCard as BC64>::DECK;
    for c in &o.cards {
        let b = BinaryCard::from_ckc(c.w);
        if b != 1u64 << c.bit || CKCNumber::from_binary_card(b) != c.w || bdeck[c.i] != 1u64 << c.bit {
            viol(rep, json!({"op":"bc_from_ckc","w":hilo(c.w)}), json!({"res": limbs(1u64 << c.bit)}), "card / bit correspondence is not bit 51 for the first deck card down to bit 0 for the last");
        }
        rep.eval(3);
    }
    for (rn, sn, _, bc) in NAMED.iter() {
        let c = o.cards.iter().find(|c| c.rank_name == *rn && c.suit_name == *sn).unwrap();
        if *bc != 1u64 << c.bit {
            viol(rep, json!({"op":"deck"}), json!({}), "a named bit constant is not its card's deck bit");
        }
    }
    if <BinaryCard as BC64>::ALL != o.all_bits || <BinaryCard as BC64>::OVERFLOW != o.overflow_bits || <BinaryCard as BC64>::BLANK != 0 {
        viol(rep, json!({"op":"deck"}), json!({}), "ALL / OVERFLOW masks are not the 52 card bits / the 12 bits above them");
    }
    for (rn, g) in RANK_GROUPS.iter() {
        let e: u64 = o.cards.iter().filter(|c| c.rank_name == *rn).map(|c| 1u64 << c.bit).sum();
        if *g != e {
            advise(rep, json!({"op":"deck"}), json!({"group": rn}), "a rank group constant is not the four bits of its rank");
        }
    }
    rep.distinct((1u64 << 32) + vals.len() as u64);
    rep.sample(observe(&json!({"op":"bc_from_ckc","w":hilo(o.cards[0].w)})));
    rep.sample(observe(&json!({"op":"ckc_from_bc","bc":limbs(3)})));
}

/// The harness's reading of the set semantics of C15 on plain u64 bit arithmetic
/// (the specification's BitSets module is the authority; direction B checks this reading).
fn peel_model(x: u64, all: u64) -> (u64, u64) {
    let cards = x & all;
    if cards == 0 {
        (0, x)
    } else {
        let b = 63 - cards.leading_zeros();
        (1u64 << b, x & !(1u64 << b))
    }
}

fn check_set(o: &Oracle, rep: &Report, x: u64, other: u64) {
    let all = o.all_bits;
    let over = o.overflow_bits;
    let e_valid = x != 0 && (x & over) == 0;
    let got = guarded(|| (x.number_of_cards(), BC64::is_valid(&x), x.is_single_card(), x.fold_in(other), x.has(other)));
    let exp = (x.count_ones(), e_valid, x.count_ones() == 1, x | other, (x & other) == other);
    match got {
        Ok(g) => {
            if (g.0, g.1, g.2) != (exp.0, exp.1, exp.2) {
                viol(rep, json!({"op":"bc_info","pre":limbs(x)}), json!({"count": exp.0, "valid": exp.1, "single": exp.2}), "count / validity / single-card test differ from the set reading");
            }
            if g.3 != exp.3 {
                viol(rep, json!({"op":"bc_fold","pre":limbs(x),"arg":limbs(other)}), json!({"res": limbs(exp.3)}), "fold-in is not union");
            }
            if g.4 != exp.4 {
                viol(rep, json!({"op":"bc_has","pre":limbs(x),"arg":limbs(other)}), json!({"res": exp.4}), "membership is not the subset test");
            }
        }
        Err(_) => viol(rep, json!({"op":"bc_info","pre":limbs(x)}), json!({"count": exp.0}), "a set operation unwound"),
    }
    rep.eval(5);
    // peel to exhaustion and twice beyond
    let mut cur = x;
    let mut model = x;
    let mut last = u64::MAX;
    for _ in 0..(x.count_ones() + 3) {
        let (ec, er) = peel_model(model, all);
        let pre = cur;
        let got = guarded(|| {
            let mut y = cur;
            let c = y.peel();
            (c, y)
        });
        if got != Ok((ec, er)) {
            viol(rep, json!({"op":"bc_peel","pre":limbs(pre)}), json!({"res": limbs(ec), "post": limbs(er)}), "peel does not remove and return the highest remaining card (blank, set unchanged, when none)");
            return;
        }
        if ec != 0 && ec >= last {
            viol(rep, json!({"op":"bc_peel","pre":limbs(pre)}), json!({"res": limbs(ec)}), "repeated peeling is not in deck order");
        }
        if ec != 0 {
            last = ec;
        }
        cur = er;
        model = er;
        rep.eval(1);
    }
}

pub fn c15(o: &Oracle, thorough: bool, seed: u64, rep: &Report) {
    let mut rng = Rng::new(seed ^ 0xC15);
    // from_two..from_seven over {blank, cards} with repetition patterns
    let reps = if thorough { 300_000 } else { 40_000 };
    let mut hands = 0u64;
    for n in 2..=7usize {
        for k in 0..reps {
            let pool = 2 + (k % 9);
            let w: Vec<u32> = (0..n)
                .map(|_| {
                    let r = rng.below(pool as u64 + 1) as usize;
                    if r == pool { 0 } else { o.cards[(r * 7 + k) % 52].w }
                })
                .collect();
            let e = w.iter().fold(0u64, |a, x| a | card_bit(o, *x));
            if guarded(|| Hand::from_words(&w).to_binary()) != Ok(e) {
                viol(rep, json!({"op":"bc_from_hand","words":hilo_arr(&w)}), json!({"res": limbs(e)}), "set built from a hand is not exactly the distinct real cards among its slots");
            }
            rep.eval(1);
            hands += 1;
        }
    }
    // hands that also hold non-card words (flagged cards, bit-flipped cards, halves of two cards, all ones,
    // small integers ...): a non-card word contributes nothing to the set
    for n in 2..=7usize {
        for k in 0..(if thorough { 200_000 } else { 30_000 }) {
            let w: Vec<u32> = (0..n).map(|i| super::cards::kind_word(o, if (k + i) % 3 == 0 { 0 } else { rng.below(super::cards::KINDS as u64) as usize }, &mut rng)).collect();
            let e = w.iter().fold(0u64, |a, x| a | card_bit(o, *x));
            if guarded(|| Hand::from_words(&w).to_binary()) != Ok(e) {
                viol(rep, json!({"op":"bc_from_hand","words":hilo_arr(&w)}), json!({"res": limbs(e)}), "set built from a hand is not exactly the distinct real cards among its slots (non-card words contribute nothing)");
            }
            rep.eval(1);
            hands += 1;
        }
    }
    // all two-slot hands over the 53 symbols exhaustively
    for a in 0..53 {
        for b in 0..53 {
            let w = [if a == 52 { 0 } else { o.cards[a].w }, if b == 52 { 0 } else { o.cards[b].w }];
            let e = card_bit(o, w[0]) | card_bit(o, w[1]);
            if guarded(|| Hand::from_words(&w).to_binary()) != Ok(e) {
                viol(rep, json!({"op":"bc_from_hand","words":hilo_arr(&w)}), json!({"res": limbs(e)}), "set built from a hand is not exactly the distinct real cards among its slots");
            }
            hands += 1;
        }
    }
    rep.space("hands of sizes 2..7 over {52 cards, blank} with repetition (all 53^2 two-slot hands, seeded otherwise), and seeded hands that also hold non-card words of every near-miss kind", false, hands);
    // sets built from text: every token is folded in -- short texts, texts longer than a deck, repeats, junk
    let junk = ["", "A", "Zs", "1s", "A1", "10s", "XX", "AS2"];
    let seps = [" ", "\t", "  ", "\n", "\u{a0}", " \r\n"];
    let mut texts = 0u64;
    for k in 0..(if thorough { 6000 } else { 900 }) {
        let ntok = match k % 6 {
            0 => k % 9,
            1 => 50 + k % 8,
            2 => 52,
            3 => 53 + k % 40,
            4 => 100 + k % 150,
            _ => k % 60,
        };
        let mut toks: Vec<String> = vec![];
        for t in 0..ntok {
            let c = &o.cards[match k % 4 { 0 => rng.below(52) as usize, 1 => (t * 7) % 52, 2 => rng.below(3) as usize, _ => 51 - (t % 52) }];
            if rng.below(7) == 0 {
                toks.push(junk[rng.below(junk.len() as u64) as usize].to_string());
            } else {
                toks.push(if rng.below(2) == 0 { format!("{}{}", c.rank_char, c.suit_letter) } else { format!("{}{}", c.rank_char.to_ascii_lowercase(), c.suit_char) });
            }
        }
        let toks: Vec<String> = toks.into_iter().filter(|t| !t.is_empty()).collect();
        let text = toks.join(seps[k % seps.len()]);
        let e = crate::props::text::split_ws(o, &text).iter().fold(0u64, |a, t| a | card_bit(o, crate::props::text::token_word(o, t)));
        let ev = json!({"op":"parse_set","s":crate::observe::cps(&text)});
        let got = observe(&ev);
        if got["ok"] != json!(true) || got["res"] != limbs(e) {
            viol(rep, ev, json!({"ok": true, "res": limbs(e)}), "set built from text is not exactly the distinct real cards among its tokens");
        }
        texts += 1;
    }
    rep.eval(texts);
    rep.space("sets built from text: 0..250 tokens (card renderings, repeats, junk), six separators", false, texts);
    // structured and seeded sets, each peeled to exhaustion and beyond
    let all = o.all_bits;
    let over = o.overflow_bits;
    let mut sets: Vec<u64> = vec![0, all, over, u64::MAX, all | (1 << 52), 1 << 52, 1 << 63, (1 << 51) | (1 << 63), all >> 1, all & !(1 << 51)];
    for b in 0..64 {
        sets.push(1u64 << b);
        sets.push(all & !(1u64 << (b % 52)));
        sets.push((1u64 << b) | (1u64 << ((b * 7 + 3) % 64)));
    }
    for (_, g) in RANK_GROUPS.iter() {
        sets.push(*g);
        sets.push(*g | over);
    }
    for s in 0..4 {
        sets.push(0x1FFFu64 << (13 * s));
    }
    for lane in lanes() {
        sets.push(lane);
        sets.push(lane & all);
        for a in [0u32, 31, 32, 39, 40, 51, 52, 63] {
            sets.push(lane | (1u64 << a));
            sets.push(lane & !(1u64 << a));
        }
    }
    for r in runs() {
        sets.push(r);
    }
    let structured = sets.len() as u64;
    let nrand = if thorough { 400_000 } else { 30_000 };
    for _ in 0..nrand {
        let dens = rng.below(4);
        let mut x = rng.next();
        for _ in 0..dens {
            x &= rng.next();
        }
        if rng.below(2) == 0 {
            x &= all;
        }
        sets.push(x);
    }
    let nsets = sets.len();
    par_chunks(nsets, |i| {
        let x = sets[i];
        let other = sets[(i * 31 + 7) % nsets];
        check_set(o, rep, x, other);
        check_set(o, rep, x, x & other);
    });
    rep.space("structured sets (empty, full, singletons, co-singletons, rank groups, suits, overflow-only, mixed), each with every operation and a full peel sequence", true, structured);
    rep.space("seeded samples of the 2^64 sets, each peeled to exhaustion and beyond", false, nrand);
    rep.distinct(hands + nsets as u64);
    rep.sample(observe(&json!({"op":"bc_peel","pre":limbs(all | (1 << 60))})));
}

/// every run of consecutive one bits: widths 1..=64 at every position
fn runs() -> Vec<u64> {
    let mut v = vec![];
    for width in 1..=64u32 {
        let m = if width == 64 { u64::MAX } else { (1u64 << width) - 1 };
        for shift in 0..=(64 - width) {
            v.push(m << shift);
        }
    }
    v
}

fn lanes() -> Vec<u64> {
    let mut v = vec![];
    for k in 0..8 {
        v.push(0xFFu64 << (8 * k));
        v.push(!(0xFFu64 << (8 * k)));
        v.push(0x0Fu64 << (8 * k));
        v.push(0xF0u64 << (8 * k));
    }
    for k in 0..4 {
        v.push(0xFFFFu64 << (16 * k));
        v.push(!(0xFFFFu64 << (16 * k)));
    }
    v.extend([0xFFFF_FFFFu64, 0xFFFF_FFFF_0000_0000, 0x5555_5555_5555_5555, 0xAAAA_AAAA_AAAA_AAAA, 0x3333_3333_3333_3333, 0x0F0F_0F0F_0F0F_0F0F]);
    v
}

pub fn c16(o: &Oracle, thorough: bool, seed: u64, rep: &Report) {
    let mut vals: Vec<u64> = vec![0];
    for a in 0..64 {
        for b in 0..64 {
            vals.push((1u64 << a) | (1u64 << b));
        }
    }
    // full byte / 16-bit / 32-bit lanes and their complements, alone and with one or two extra bits
    // (a bit-counting slip typically lives in one lane of a parallel count)
    for lane in lanes() {
        vals.push(lane);
        for a in 0..64 {
            vals.push(lane | (1u64 << a));
            vals.push(lane & !(1u64 << a));
            for b in 0..a {
                vals.push(lane | (1u64 << a) | (1u64 << b));
            }
        }
    }
    // every run of consecutive bits (any width, any position, byte-aligned or not), alone, with one bit
    // added below / above, and with one bit of the run cleared
    for r in runs() {
        vals.push(r);
        vals.push(!r);
        vals.push(r | 1);
        vals.push(r | (1u64 << 51));
        vals.push(r | (1u64 << 63));
        vals.push(r & (r - 1));
        vals.push(r & !(1u64 << (63 - r.leading_zeros())));
    }
    let structured = vals.len() as u64;
    let mut rng = Rng::new(seed ^ 0xC16);
    let per = if thorough { 20_000 } else { 1_000 };
    for pc in 0..=64u32 {
        for _ in 0..per {
            let mut bits: Vec<u32> = (0..64).collect();
            rng.shuffle(&mut bits);
            let mut x = 0u64;
            for b in bits.iter().take(pc as usize) {
                x |= 1u64 << b;
            }
            vals.push(x);
        }
    }
    for x in &vals {
        let n = x.count_ones();
        let ev = json!({"op":"two_from_bc","bc":limbs(*x)});
        let got = observe(&ev);
        let exp = if n < 2 {
            json!({"kind": "NotEnoughCards"})
        } else if n > 2 {
            json!({"kind": "TooManyCards"})
        } else {
            let hi = 63 - x.leading_zeros();
            let lo = x.trailing_zeros();
            if hi < 52 {
                json!({"kind": "ok", "res": hilo_arr(&[word_of_bit(o, hi), word_of_bit(o, lo)]), "back": limbs(*x)})
            } else {
                json!({"kind": "InvalidBinaryFormat"})
            }
        };
        for (k, e) in exp.as_object().unwrap() {
            if &got[k] != e {
                viol(rep, ev.clone(), exp.clone(), "two-card hand from a bit-set: wrong success / error kind / cards / round trip");
                break;
            }
        }
        rep.eval(2);
    }
    let _ = Two::default();
    rep.distinct(vals.len() as u64);
    rep.space("all 64 x 64 one- and two-bit values, the empty set, every byte / 16-bit / 32-bit lane (and complement) with up to two extra bits, and every run of consecutive bits of any width at any position (with a bit added or cleared)", true, structured);
    rep.space("seeded values of every population count 0..64", false, vals.len() as u64 - structured);
    rep.sample(observe(&json!({"op":"two_from_bc","bc":limbs((1u64 << 51) | 1)})));
    rep.sample(observe(&json!({"op":"two_from_bc","bc":limbs((1u64 << 52) | 1)})));
}
