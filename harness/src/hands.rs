//! Uniform access to the six container types Two..Seven through their own public API
//! (per-slot accessors and setters are called by name; nothing here reaches into the arrays).

use ckc_rs::cards::five::Five;
use ckc_rs::cards::four::Four;
use ckc_rs::cards::seven::Seven;
use ckc_rs::cards::six::Six;
use ckc_rs::cards::three::Three;
use ckc_rs::cards::two::Two;
use ckc_rs::cards::{HandRanker, HandValidator, Permutator};
use ckc_rs::cards::binary_card::{BinaryCard, BC64};
use ckc_rs::Shifty;

#[derive(Clone, Copy, Debug)]
pub enum Hand {
    H2(Two),
    H3(Three),
    H4(Four),
    H5(Five),
    H6(Six),
    H7(Seven),
}

macro_rules! each {
    ($self:expr, $h:ident => $e:expr) => {
        match $self {
            Hand::H2($h) => $e,
            Hand::H3($h) => $e,
            Hand::H4($h) => $e,
            Hand::H5($h) => $e,
            Hand::H6($h) => $e,
            Hand::H7($h) => $e,
        }
    };
}

impl Hand {
    /// From<[u32; N]>
    pub fn from_words(w: &[u32]) -> Hand {
        match w.len() {
            2 => Hand::H2(Two::from([w[0], w[1]])),
            3 => Hand::H3(Three::from([w[0], w[1], w[2]])),
            4 => Hand::H4(Four::from([w[0], w[1], w[2], w[3]])),
            5 => Hand::H5(Five::from([w[0], w[1], w[2], w[3], w[4]])),
            6 => Hand::H6(Six::from([w[0], w[1], w[2], w[3], w[4], w[5]])),
            7 => Hand::H7(Seven::from([w[0], w[1], w[2], w[3], w[4], w[5], w[6]])),
            n => panic!("harness: no container of size {}", n),
        }
    }
    /// The other public constructors: Two::new, Three(..) tuple struct, From<&[u32;2]>, Five::new,
    /// Six::from_1_and_2_and_3, Seven::new(Two, Five); Four has only From.
    pub fn from_parts(w: &[u32]) -> Hand {
        match w.len() {
            2 => Hand::H2(Two::new(w[0], w[1])),
            3 => Hand::H3(Three([w[0], w[1], w[2]])),
            4 => Hand::H4(Four::from([w[0], w[1], w[2], w[3]])),
            5 => Hand::H5(Five::new(w[0], w[1], w[2], w[3], w[4])),
            6 => Hand::H6(Six::from_1_and_2_and_3(w[0], Two::new(w[1], w[2]), Three([w[3], w[4], w[5]]))),
            7 => Hand::H7(Seven::new(Two::from(&[w[0], w[1]]), Five::new(w[2], w[3], w[4], w[5], w[6]))),
            n => panic!("harness: no container of size {}", n),
        }
    }
    pub fn default_of(n: usize) -> Hand {
        match n {
            2 => Hand::H2(Two::default()),
            3 => Hand::H3(Three::default()),
            4 => Hand::H4(Four::default()),
            5 => Hand::H5(Five::default()),
            6 => Hand::H6(Six::default()),
            7 => Hand::H7(Seven::default()),
            n => panic!("harness: no container of size {}", n),
        }
    }
    pub fn len(&self) -> usize {
        match self {
            Hand::H2(_) => 2,
            Hand::H3(_) => 3,
            Hand::H4(_) => 4,
            Hand::H5(_) => 5,
            Hand::H6(_) => 6,
            Hand::H7(_) => 7,
        }
    }
    pub fn to_arr(&self) -> Vec<u32> {
        each!(self, h => h.to_arr().to_vec())
    }
    pub fn iter_vec(&self) -> Vec<u32> {
        each!(self, h => h.iter().copied().collect())
    }
    pub fn first(&self) -> u32 {
        each!(self, h => h.first())
    }
    /// Read slot i (0-based) through the named accessor.
    pub fn get(&self, i: usize) -> u32 {
        match (self, i) {
            (_, 0) => self.first(),
            (Hand::H2(h), 1) => h.second(),
            (Hand::H3(h), 1) => h.second(),
            (Hand::H3(h), 2) => h.third(),
            (Hand::H4(h), 1) => h.second(),
            (Hand::H4(h), 2) => h.third(),
            (Hand::H4(h), 3) => h.forth(),
            (Hand::H5(h), 1) => h.second(),
            (Hand::H5(h), 2) => h.third(),
            (Hand::H5(h), 3) => h.forth(),
            (Hand::H5(h), 4) => h.fifth(),
            (Hand::H6(h), 1) => h.second(),
            (Hand::H6(h), 2) => h.third(),
            (Hand::H6(h), 3) => h.forth(),
            (Hand::H6(h), 4) => h.fifth(),
            (Hand::H6(h), 5) => h.sixth(),
            (Hand::H7(h), 1) => h.second(),
            (Hand::H7(h), 2) => h.third(),
            (Hand::H7(h), 3) => h.forth(),
            (Hand::H7(h), 4) => h.fifth(),
            (Hand::H7(h), 5) => h.sixth(),
            (Hand::H7(h), 6) => h.seventh(),
            _ => panic!("harness: slot {} out of range", i),
        }
    }
    pub fn accessors(&self) -> Vec<u32> {
        (0..self.len()).map(|i| self.get(i)).collect()
    }
    /// Write slot i (0-based) through the named setter.
    pub fn set(&mut self, i: usize, w: u32) {
        match (self, i) {
            (Hand::H2(h), 0) => h.set_first(w),
            (Hand::H2(h), 1) => h.set_second(w),
            (Hand::H3(h), 0) => h.set_first(w),
            (Hand::H3(h), 1) => h.set_second(w),
            (Hand::H3(h), 2) => h.set_third(w),
            (Hand::H4(h), 0) => h.set_first(w),
            (Hand::H4(h), 1) => h.set_second(w),
            (Hand::H4(h), 2) => h.set_third(w),
            (Hand::H4(h), 3) => h.set_forth(w),
            (Hand::H5(h), 0) => h.set_first(w),
            (Hand::H5(h), 1) => h.set_second(w),
            (Hand::H5(h), 2) => h.set_third(w),
            (Hand::H5(h), 3) => h.set_forth(w),
            (Hand::H5(h), 4) => h.set_fifth(w),
            (Hand::H6(h), 0) => h.set_first(w),
            (Hand::H6(h), 1) => h.set_second(w),
            (Hand::H6(h), 2) => h.set_third(w),
            (Hand::H6(h), 3) => h.set_forth(w),
            (Hand::H6(h), 4) => h.set_fifth(w),
            (Hand::H6(h), 5) => h.set_sixth(w),
            (Hand::H7(h), 0) => h.set_first(w),
            (Hand::H7(h), 1) => h.set_second(w),
            (Hand::H7(h), 2) => h.set_third(w),
            (Hand::H7(h), 3) => h.set_forth(w),
            (Hand::H7(h), 4) => h.set_fifth(w),
            (Hand::H7(h), 5) => h.set_sixth(w),
            (Hand::H7(h), 6) => h.set_seventh(w),
            (_, i) => panic!("harness: slot {} out of range", i),
        }
    }
    pub fn sort(&self) -> Hand {
        match self {
            Hand::H2(h) => Hand::H2(h.sort()),
            Hand::H3(h) => Hand::H3(h.sort()),
            Hand::H4(h) => Hand::H4(h.sort()),
            Hand::H5(h) => Hand::H5(h.sort()),
            Hand::H6(h) => Hand::H6(h.sort()),
            Hand::H7(h) => Hand::H7(h.sort()),
        }
    }
    pub fn sort_in_place(&mut self) {
        each!(self, h => h.sort_in_place())
    }
    pub fn shift_suit(&self) -> Hand {
        match self {
            Hand::H2(h) => Hand::H2(h.shift_suit()),
            Hand::H3(h) => Hand::H3(h.shift_suit()),
            Hand::H4(h) => Hand::H4(h.shift_suit()),
            Hand::H5(h) => Hand::H5(h.shift_suit()),
            Hand::H6(h) => Hand::H6(h.shift_suit()),
            Hand::H7(h) => Hand::H7(h.shift_suit()),
        }
    }
    pub fn are_unique(&self) -> bool {
        each!(self, h => h.are_unique())
    }
    pub fn contain_blank(&self) -> bool {
        each!(self, h => h.contain_blank())
    }
    pub fn is_corrupt(&self) -> bool {
        each!(self, h => h.is_corrupt())
    }
    pub fn is_valid(&self) -> bool {
        each!(self, h => h.is_valid())
    }
    pub fn to_binary(&self) -> u64 {
        match self {
            Hand::H2(h) => BinaryCard::from_two(*h),
            Hand::H3(h) => BinaryCard::from_three(*h),
            Hand::H4(h) => BinaryCard::from_four(*h),
            Hand::H5(h) => BinaryCard::from_five(*h),
            Hand::H6(h) => BinaryCard::from_six(*h),
            Hand::H7(h) => BinaryCard::from_seven(*h),
        }
    }
    pub fn five_from_permutation(&self, p: [u8; 5]) -> Option<Five> {
        match self {
            Hand::H6(h) => Some(h.five_from_permutation(p)),
            Hand::H7(h) => Some(h.five_from_permutation(p)),
            _ => None,
        }
    }
    /// TryFrom<&'static str>; the string is leaked on purpose (the API demands 'static).
    pub fn parse(n: usize, s: &str) -> Result<Hand, String> {
        let st: &'static str = Box::leak(s.to_string().into_boxed_str());
        let e = |e: ckc_rs::HandError| format!("{:?}", e);
        match n {
            2 => Two::try_from(st).map(Hand::H2).map_err(e),
            3 => Three::try_from(st).map(Hand::H3).map_err(e),
            4 => Four::try_from(st).map(Hand::H4).map_err(e),
            5 => Five::try_from(st).map(Hand::H5).map_err(e),
            6 => Six::try_from(st).map(Hand::H6).map_err(e),
            7 => Seven::try_from(st).map(Hand::H7).map_err(e),
            n => panic!("harness: no container of size {}", n),
        }
    }
}

/// The ranking entry points of the five-, six- and seven-slot containers.
pub struct Ranked {
    pub value: u16,
    pub witness: [u32; 5],
}

pub fn rank_value(h: &Hand) -> u16 {
    match h {
        Hand::H5(x) => x.hand_rank_value(),
        Hand::H6(x) => x.hand_rank_value(),
        Hand::H7(x) => x.hand_rank_value(),
        _ => panic!("harness: only 5..7 slots rank"),
    }
}
pub fn rank_value_and_hand(h: &Hand) -> Ranked {
    let (v, f) = match h {
        Hand::H5(x) => x.hand_rank_value_and_hand(),
        Hand::H6(x) => x.hand_rank_value_and_hand(),
        Hand::H7(x) => x.hand_rank_value_and_hand(),
        _ => panic!("harness: only 5..7 slots rank"),
    };
    Ranked { value: v, witness: f.to_arr() }
}
pub fn rank_value_validated(h: &Hand) -> u16 {
    match h {
        Hand::H5(x) => x.hand_rank_value_validated(),
        Hand::H6(x) => x.hand_rank_value_validated(),
        Hand::H7(x) => x.hand_rank_value_validated(),
        _ => panic!("harness: only 5..7 slots rank"),
    }
}
pub fn hand_rank(h: &Hand) -> ckc_rs::hand_rank::HandRank {
    match h {
        Hand::H5(x) => x.hand_rank(),
        Hand::H6(x) => x.hand_rank(),
        Hand::H7(x) => x.hand_rank(),
        _ => panic!("harness: only 5..7 slots rank"),
    }
}
pub fn hand_rank_validated(h: &Hand) -> ckc_rs::hand_rank::HandRank {
    match h {
        Hand::H5(x) => x.hand_rank_validated(),
        Hand::H6(x) => x.hand_rank_validated(),
        Hand::H7(x) => x.hand_rank_validated(),
        _ => panic!("harness: only 5..7 slots rank"),
    }
}
