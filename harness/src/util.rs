//! Enumeration, seeding, parallel driving and result collection.
//! No poker knowledge lives here (or anywhere in this crate): expected values
//! come from the JSON files TLC wrote from the specification.

use serde_json::{json, Value};
use std::panic::{catch_unwind, AssertUnwindSafe};
use std::sync::atomic::{AtomicU64, Ordering};
use std::sync::Mutex;

/// splitmix64: tiny deterministic PRNG so the harness needs no crate for it.
#[derive(Clone)]
pub struct Rng(pub u64);
impl Rng {
    pub fn new(seed: u64) -> Self {
        Rng(seed ^ 0x9E37_79B9_7F4A_7C15)
    }
    pub fn next(&mut self) -> u64 {
        self.0 = self.0.wrapping_add(0x9E37_79B9_7F4A_7C15);
        let mut z = self.0;
        z = (z ^ (z >> 30)).wrapping_mul(0xBF58_476D_1CE4_E5B9);
        z = (z ^ (z >> 27)).wrapping_mul(0x94D0_49BB_1331_11EB);
        z ^ (z >> 31)
    }
    pub fn below(&mut self, n: u64) -> u64 {
        if n == 0 {
            0
        } else {
            self.next() % n
        }
    }
    pub fn u32(&mut self) -> u32 {
        (self.next() >> 16) as u32
    }
    pub fn shuffle<T>(&mut self, v: &mut [T]) {
        for i in (1..v.len()).rev() {
            let j = self.below(i as u64 + 1) as usize;
            v.swap(i, j);
        }
    }
    pub fn fork(&self, salt: u64) -> Rng {
        let mut r = Rng(self.0 ^ salt.wrapping_mul(0xD6E8_FEB8_6659_FD93));
        r.next();
        r
    }
}

/// Outcome of calling into the code under test: a panic is data.
pub fn guarded<T, F: FnOnce() -> T>(f: F) -> Result<T, String> {
    match catch_unwind(AssertUnwindSafe(f)) {
        Ok(v) => Ok(v),
        Err(e) => {
            let msg = if let Some(s) = e.downcast_ref::<&str>() {
                (*s).to_string()
            } else if let Some(s) = e.downcast_ref::<String>() {
                s.clone()
            } else {
                "panic".to_string()
            };
            Err(msg)
        }
    }
}

/// Where and why the most recent panic happened (set by the hook; panics are otherwise silent).
pub static LAST_PANIC: Mutex<Option<(String, u32, String)>> = Mutex::new(None);

pub fn silence_panics() {
    std::panic::set_hook(Box::new(|info| {
        let (file, line) = info.location().map(|l| (l.file().to_string(), l.line())).unwrap_or_default();
        let msg = if let Some(s) = info.payload().downcast_ref::<&str>() {
            (*s).to_string()
        } else if let Some(s) = info.payload().downcast_ref::<String>() {
            s.clone()
        } else {
            "panic".to_string()
        };
        if let Ok(mut g) = LAST_PANIC.lock() {
            *g = Some((file, line, msg));
        }
    }));
}

/// Did the most recent panic originate in the code under test (ckc-rs, a path dependency on /repo)
/// rather than in this harness?
pub fn last_panic_in_code_under_test() -> Option<(String, u32, String)> {
    let g = LAST_PANIC.lock().ok()?;
    let (file, line, msg) = g.clone()?;
    // the harness's own files are reported relative to its manifest ("src/..."); a path dependency is reported
    // with its absolute path (/repo/src/..., or a scratch worktree when a change is screened in isolation)
    let dependency = file.starts_with('/') && !file.starts_with("/rustc/") && !file.contains("/.cargo/registry/") && !file.contains("/rustlib/");
    if dependency && !msg.starts_with("harness:") {
        Some((file, line, msg))
    } else {
        None
    }
}

/// Collects what a replay run covered and what it found.
pub struct Report {
    pub property: String,
    pub evaluations: AtomicU64,
    pub distinct: AtomicU64,
    pub violations_total: AtomicU64,
    pub violations: Mutex<Vec<Value>>,
    pub advisories_total: AtomicU64,
    pub advisories: Mutex<Vec<Value>>,
    pub samples: Mutex<Vec<Value>>,
    pub notes: Mutex<Vec<String>>,
    pub exhaustive: Mutex<Vec<(String, bool, u64)>>,
}

impl Report {
    pub fn new(property: &str) -> Self {
        Report {
            property: property.to_string(),
            evaluations: AtomicU64::new(0),
            distinct: AtomicU64::new(0),
            violations_total: AtomicU64::new(0),
            violations: Mutex::new(vec![]),
            advisories_total: AtomicU64::new(0),
            advisories: Mutex::new(vec![]),
            samples: Mutex::new(vec![]),
            notes: Mutex::new(vec![]),
            exhaustive: Mutex::new(vec![]),
        }
    }
    pub fn eval(&self, n: u64) {
        self.evaluations.fetch_add(n, Ordering::Relaxed);
    }
    pub fn distinct(&self, n: u64) {
        self.distinct.fetch_add(n, Ordering::Relaxed);
    }
    /// A strict observation disagreed with the specification.
    pub fn violation(&self, v: Value) {
        let n = self.violations_total.fetch_add(1, Ordering::Relaxed);
        if n < 20 {
            self.violations.lock().unwrap().push(v);
        }
        if n + 1 >= SATURATION {
            SATURATED.store(true, Ordering::Relaxed);
        }
    }
    pub fn count_violation(&self) {
        let n = self.violations_total.fetch_add(1, Ordering::Relaxed);
        if n + 1 >= SATURATION {
            SATURATED.store(true, Ordering::Relaxed);
        }
    }
    /// An advisory observation drifted (never affects the exit code).
    pub fn advisory(&self, v: Value) {
        let n = self.advisories_total.fetch_add(1, Ordering::Relaxed);
        if n < 10 {
            self.advisories.lock().unwrap().push(v);
        }
    }
    pub fn sample(&self, v: Value) {
        let mut s = self.samples.lock().unwrap();
        if s.len() < 6 {
            s.push(v);
        }
    }
    pub fn note(&self, s: String) {
        self.notes.lock().unwrap().push(s);
    }
    /// Record one enumerated space: its name, whether it was enumerated completely, its size.
    pub fn space(&self, name: &str, exhaustive: bool, size: u64) {
        self.exhaustive.lock().unwrap().push((name.to_string(), exhaustive, size));
    }
    pub fn ok(&self) -> bool {
        self.violations_total.load(Ordering::Relaxed) == 0
    }
    pub fn to_json(&self) -> Value {
        let spaces: Vec<Value> = self
            .exhaustive
            .lock()
            .unwrap()
            .iter()
            .map(|(n, e, s)| json!({"space": n, "exhaustive": e, "size": s}))
            .collect();
        json!({
            "property": self.property,
            "evaluations": self.evaluations.load(Ordering::Relaxed),
            "distinct_nontrivial": self.distinct.load(Ordering::Relaxed),
            "violations_total": self.violations_total.load(Ordering::Relaxed),
            "stopped_early": saturated(),
            "violations": *self.violations.lock().unwrap(),
            "advisories_total": self.advisories_total.load(Ordering::Relaxed),
            "advisories": *self.advisories.lock().unwrap(),
            "samples": *self.samples.lock().unwrap(),
            "notes": *self.notes.lock().unwrap(),
            "spaces": spaces,
        })
    }
}

pub fn threads() -> usize {
    std::env::var("VERIF_THREADS")
        .ok()
        .and_then(|s| s.parse().ok())
        .unwrap_or_else(|| std::thread::available_parallelism().map(|n| n.get()).unwrap_or(4))
}

/// Run `f(chunk_index)` for chunk indices 0..n on all cores (dynamic scheduling).
/// Once a replay has counted this many violations its parallel sweeps stop handing out work: the verdict is
/// settled, and code that is wrong on most inputs would otherwise make the run very slow.
pub const SATURATION: u64 = 1000;
pub static SATURATED: std::sync::atomic::AtomicBool = std::sync::atomic::AtomicBool::new(false);
pub fn saturated() -> bool {
    SATURATED.load(Ordering::Relaxed)
}

pub fn par_chunks<F: Fn(usize) + Sync>(n: usize, f: F) {
    let next = AtomicU64::new(0);
    let t = threads().min(n.max(1));
    std::thread::scope(|s| {
        for _ in 0..t {
            s.spawn(|| loop {
                let i = next.fetch_add(1, Ordering::Relaxed) as usize;
                if i >= n || saturated() {
                    break;
                }
                f(i);
            });
        }
    });
}

/// Binomial coefficients up to 64.
pub fn choose(n: usize, k: usize) -> u64 {
    if k > n {
        return 0;
    }
    let k = k.min(n - k);
    let mut r: u64 = 1;
    for i in 0..k {
        r = r * (n - i) as u64 / (i as u64 + 1);
    }
    r
}

/// Colexicographic rank of a strictly increasing index tuple.
pub fn colex_rank(idx: &[usize]) -> usize {
    let mut r = 0u64;
    for (k, &c) in idx.iter().enumerate() {
        r += choose(c, k + 1);
    }
    r as usize
}

/// Advance `idx` (strictly increasing, values < n) to the next combination in lexicographic order.
pub fn next_combination(idx: &mut [usize], n: usize) -> bool {
    let k = idx.len();
    let mut i = k;
    while i > 0 {
        i -= 1;
        if idx[i] != i + n - k {
            idx[i] += 1;
            for j in i + 1..k {
                idx[j] = idx[j - 1] + 1;
            }
            return true;
        }
    }
    false
}

/// All k-combinations of 0..n whose first element is `first` (for partitioning work).
pub fn for_each_combination_with_first<F: FnMut(&[usize])>(n: usize, k: usize, first: usize, mut f: F) {
    if k == 0 || first + k > n {
        return;
    }
    let mut idx: Vec<usize> = (first..first + k).collect();
    loop {
        f(&idx);
        // advance positions 1.. only
        let mut i = k;
        let mut advanced = false;
        while i > 1 {
            i -= 1;
            if idx[i] != i + n - k {
                idx[i] += 1;
                for j in i + 1..k {
                    idx[j] = idx[j - 1] + 1;
                }
                advanced = true;
                break;
            }
        }
        if !advanced {
            break;
        }
    }
}

/// Multisets of size k over 0..n (non-decreasing tuples) with a given first element.
pub fn for_each_multiset_with_first<F: FnMut(&[usize])>(n: usize, k: usize, first: usize, mut f: F) {
    if k == 0 || first >= n {
        return;
    }
    let mut idx: Vec<usize> = vec![first; k];
    loop {
        f(&idx);
        let mut i = k;
        let mut advanced = false;
        while i > 1 {
            i -= 1;
            if idx[i] != n - 1 {
                idx[i] += 1;
                for j in i + 1..k {
                    idx[j] = idx[i];
                }
                advanced = true;
                break;
            }
        }
        if !advanced {
            break;
        }
    }
}

/// All permutations of 0..n (n <= 7), in lexicographic order.
pub fn permutations(n: usize) -> Vec<Vec<usize>> {
    fn rec(cur: &mut Vec<usize>, used: &mut Vec<bool>, n: usize, out: &mut Vec<Vec<usize>>) {
        if cur.len() == n {
            out.push(cur.clone());
            return;
        }
        for i in 0..n {
            if !used[i] {
                used[i] = true;
                cur.push(i);
                rec(cur, used, n, out);
                cur.pop();
                used[i] = false;
            }
        }
    }
    let mut out = vec![];
    rec(&mut vec![], &mut vec![false; n], n, &mut out);
    out
}

pub fn hilo(w: u32) -> Value {
    json!([w >> 16, w & 0xFFFF])
}
pub fn hilo_arr(ws: &[u32]) -> Value {
    Value::Array(ws.iter().map(|w| hilo(*w)).collect())
}
pub fn limbs(x: u64) -> Value {
    json!([(x >> 48) & 0xFFFF, (x >> 32) & 0xFFFF, (x >> 16) & 0xFFFF, x & 0xFFFF])
}
pub fn from_hilo(v: &Value) -> u32 {
    let a = v.as_array().expect("word is [hi,lo]");
    ((a[0].as_u64().unwrap() as u32) << 16) | (a[1].as_u64().unwrap() as u32)
}
