//! Specification -> implementation replay, one function per property.
//! Expected values are look-ups in the TLC-generated oracle; the concrete input space each
//! property quantifies over is enumerated here (completely wherever the report says so).

use crate::hands::*;
use crate::observe::{observe, RANK_NAMES, SUIT_NAMES};
use crate::oracle::Oracle;
use crate::util::*;
use serde_json::{json, Value};
use std::sync::atomic::{AtomicU64, AtomicU8, Ordering};

mod cards;
mod history;
mod misc;
mod ranking;
mod sets;
mod text;

pub fn run(id: &str, o: &Oracle, tier: &str, seed: u64, rep: &Report) -> bool {
    let thorough = tier == "thorough";
    // history independence (single-threaded interleaving on a recurring pool), before the sweeps
    let rounds = if thorough { 4_000_000 } else { 400_000 };
    match id {
        "C01" | "C02" | "C03" | "C04" | "C05" | "C06" | "C08" | "C09" | "C13" => {
            if id != "C09" {
                history::ranking_history(o, id, seed, rep, rounds);
            }
            if matches!(id, "C01" | "C06") {
                history::five_pairs_history(o, id, seed, rep, thorough);
            }
            if id == "C06" {
                history::conversion_neighbours(o, rep);
            }
            if matches!(id, "C02" | "C03" | "C09" | "C06" | "C08") {
                history::big_families_history(o, id, seed, rep, rounds / 8);
            }
            if !matches!(id, "C08" | "C09") {
                history::repeat_then_neighbour_ranking(o, id, seed, rep, thorough);
            }
        }
        "C15" | "C16" => {
            history::words_history(o, id, seed, rep, rounds);
            if id == "C15" {
                history::peel_interleaving(o, seed, rep, rounds);
            }
            history::repeat_then_neighbour_misc(o, id, seed, rep);
        }
        "C07" | "C10" | "C14" | "C17" | "C18" | "C20" => {
            history::words_history(o, id, seed, rep, rounds);
            history::repeat_then_neighbour_misc(o, id, seed, rep);
            if id == "C07" {
                history::conversion_then_compare(o, rep);
            }
        }
        _ => {}
    }
    match id {
        "C01" => ranking::c01(o, thorough, seed, rep),
        "C02" => ranking::c02_c03(o, thorough, seed, rep, false),
        "C03" => ranking::c02_c03(o, thorough, seed, rep, true),
        "C04" => cards::c04(o, thorough, seed, rep),
        "C05" => ranking::c05(o, thorough, seed, rep),
        "C06" => misc::c06(o, thorough, seed, rep),
        "C07" => misc::c07(o, thorough, seed, rep),
        "C08" => ranking::c08(o, thorough, seed, rep),
        "C09" => ranking::c09(o, thorough, seed, rep),
        "C10" => cards::c10(o, thorough, seed, rep),
        "C11" => cards::c11(o, thorough, seed, rep),
        "C12" => text::c12(o, thorough, seed, rep),
        "C13" => ranking::c13(o, thorough, seed, rep),
        "C14" => sets::c14(o, thorough, seed, rep),
        "C15" => sets::c15(o, thorough, seed, rep),
        "C16" => sets::c16(o, thorough, seed, rep),
        "C17" => misc::c17(o, thorough, seed, rep),
        "C18" => misc::c18(o, thorough, seed, rep),
        "C19" => cards::c19(o, thorough, seed, rep),
        "C20" => cards::c20(o, thorough, seed, rep),
        _ => return false,
    }
    true
}

/// Record a violation as a replayable case: the event (op + arguments), the fields the
/// specification expects, and what the code did.
pub fn viol(rep: &Report, event: Value, expected: Value, why: &str) {
    if rep.violations_total.load(std::sync::atomic::Ordering::Relaxed) >= 20 {
        // only the first 20 are stored; the rest are counted (and the sweep stops early once there are 1000)
        rep.count_violation();
        return;
    }
    let observed = observe(&event);
    rep.violation(json!({"property": rep.property, "why": why, "event": event, "expected": expected, "observed": observed}));
}
pub fn advise(rep: &Report, event: Value, expected: Value, why: &str) {
    rep.advisory(json!({"why": why, "event": event, "expected": expected}));
}

pub fn mix(seed: u64, x: u64) -> u64 {
    let mut r = Rng(seed ^ x.wrapping_mul(0x9E37_79B9_7F4A_7C15));
    r.next()
}

/// Every k-subset of the deck (increasing deck indices), in parallel, partitioned by the first
/// two elements.  `keep(counter)` decides sampling; the closure gets the indices.
pub fn par_subsets<F: Fn(&[usize], u64) + Sync>(k: usize, f: F) {
    let mut firsts = vec![];
    for a in 0..52 {
        for b in a + 1..52 {
            firsts.push((a, b));
        }
    }
    let counter = AtomicU64::new(0);
    par_chunks(firsts.len(), |ci| {
        let (a, b) = firsts[ci];
        if k == 2 {
            f(&[a, b], counter.fetch_add(1, Ordering::Relaxed));
            return;
        }
        if b + 1 + (k - 2) > 52 {
            return;
        }
        let mut idx: Vec<usize> = vec![a, b];
        idx.extend((b + 1)..(b + 1 + k - 2));
        let mut local = (ci as u64) << 32;
        loop {
            if crate::util::saturated() {
                return;
            }
            f(&idx, local);
            local += 1;
            // advance positions 2..
            let mut i = k;
            let mut advanced = false;
            while i > 2 {
                i -= 1;
                if idx[i] != i + 52 - k {
                    idx[i] += 1;
                    for j in i + 1..k {
                        idx[j] = idx[j - 1] + 1;
                    }
                    advanced = true;
                    break;
                }
            }
            if !advanced {
                break;
            }
        }
    });
}

pub struct Bits(Vec<AtomicU8>);
impl Bits {
    pub fn new(n: usize) -> Self {
        Bits((0..n).map(|_| AtomicU8::new(0)).collect())
    }
    pub fn set(&self, i: usize) {
        self.0[i].store(1, Ordering::Relaxed);
    }
    pub fn get(&self, i: usize) -> bool {
        self.0[i].load(Ordering::Relaxed) != 0
    }
    pub fn count(&self) -> usize {
        self.0.iter().filter(|b| b.load(Ordering::Relaxed) != 0).count()
    }
}

pub fn rank_names() -> &'static [&'static str; 14] {
    &RANK_NAMES
}
pub fn suit_names() -> &'static [&'static str; 5] {
    &SUIT_NAMES
}
