//! Implementation -> specification: drivers that exercise the real API and record one NDJSON
//! event per call, for TLC to validate against spec/CkcTrace.tla.  Each driver mixes a structured
//! part (one event per class / table row / branch of the specification) with seeded random fill.

use crate::hands::*;
use crate::observe::{cps, observe, RANK_NAMES, SUIT_NAMES};
use crate::oracle::Oracle;
use crate::props::mix;
use crate::util::*;
use ckc_rs::cards::binary_card::BC64;
use serde_json::{json, Value};
use std::io::Write;

struct Out<'a> {
    w: &'a mut dyn Write,
    n: u64,
}
impl<'a> Out<'a> {
    fn ev(&mut self, args: Value) {
        let e = observe(&args);
        self.raw(e);
    }
    fn raw(&mut self, e: Value) {
        writeln!(self.w, "{}", serde_json::to_string(&e).unwrap()).unwrap();
        self.n += 1;
    }
}

fn rand_cards(o: &Oracle, rng: &mut Rng, n: usize) -> Vec<u32> {
    let mut d: Vec<usize> = (0..52).collect();
    rng.shuffle(&mut d);
    d.iter().take(n).map(|&i| o.cards[i].w).collect()
}
fn near_miss(o: &Oracle, rng: &mut Rng) -> u32 {
    let c = o.cards[rng.below(52) as usize].w;
    match rng.below(9) {
        0 => c,
        1 => 0,
        2 => c ^ (1u32 << rng.below(32)),
        3 => c | (1u32 << (29 + rng.below(3) as u32)),
        4 => u32::MAX,
        5 => rng.below(64) as u32,
        6 => c & 0x1FFF_0000,
        7 => c & 0xFFFF,
        _ => rng.u32(),
    }
}

/// one hand of the class with this ordinal: seeded suits and slot order
fn hand_of_class(o: &Oracle, v: usize, rng: &mut Rng) -> Vec<u32> {
    let c = &o.classes[v - 1];
    let di = |r: usize, s: usize| (3 - s) * 13 + (12 - r);
    let mut w = vec![];
    if c.flush {
        let s = rng.below(4) as usize;
        for r in c.ranks {
            w.push(o.cards[di(r as usize, s)].w);
        }
    } else {
        loop {
            w.clear();
            let mut used = std::collections::HashSet::new();
            let mut suits = vec![];
            for r in c.ranks {
                loop {
                    let s = rng.below(4) as usize;
                    if used.insert((r, s)) {
                        suits.push(s);
                        w.push(o.cards[di(r as usize, s)].w);
                        break;
                    }
                }
            }
            if suits.iter().any(|s| *s != suits[0]) {
                break;
            }
        }
    }
    rng.shuffle(&mut w);
    w
}

pub fn run(id: &str, o: &Oracle, tier: &str, seed: u64, w: &mut dyn Write) -> Option<u64> {
    let thorough = tier == "thorough";
    let scale: u64 = if thorough { 6 } else { 1 };
    let mut out = Out { w, n: 0 };
    let mut rng = Rng::new(seed ^ 0x7ACE ^ id.bytes().fold(0u64, |a, b| a * 131 + b as u64));
    match id {
        "C01" | "C13" => {
            for v in 1..=o.n_classes as usize {
                let h = hand_of_class(o, v, &mut rng);
                out.ev(json!({"op":"rank5","words":hilo_arr(&h)}));
            }
            for _ in 0..500 * scale {
                let h = rand_cards(o, &mut rng, 5);
                out.ev(json!({"op":"rank5","words":hilo_arr(&h)}));
            }
        }
        "C02" | "C03" | "C09" => {
            for k in 0..1500 * scale {
                let n = 6 + (k % 2) as usize;
                // half of them biased towards flushes / straights / multiples: draw from a 20-card window
                let h = if k % 4 < 2 {
                    rand_cards(o, &mut rng, n)
                } else {
                    let start = rng.below(52) as usize;
                    // k%4==2: twenty consecutive deck cards (long same-suit runs);
                    // k%4==3: five neighbouring ranks in all four suits (pairs, trips, quads, straights)
                    let mut d: Vec<usize> = (0..20).map(|j| if k % 4 == 2 { (start + j) % 52 } else { (start + j % 5) % 13 + 13 * (j / 5) }).collect();
                    d.sort_unstable();
                    d.dedup();
                    rng.shuffle(&mut d);
                    d.iter().take(n).map(|&i| o.cards[i].w).collect()
                };
                if id == "C09" {
                    let mut h7 = h.clone();
                    while h7.len() < 7 {
                        let c = o.cards[rng.below(52) as usize].w;
                        if !h7.contains(&c) {
                            h7.push(c);
                        }
                    }
                    out.ev(json!({"op":"deal","words":hilo_arr(&h7)}));
                } else {
                    out.ev(json!({"op":"rankn","words":hilo_arr(&h)}));
                }
            }
            if id == "C03" {
                for _ in 0..300 * scale {
                    let h = rand_cards(o, &mut rng, 5);
                    out.ev(json!({"op":"rank5","words":hilo_arr(&h)}));
                }
            }
        }
        "C04" => {
            for k in 0..2500 * scale {
                let n = 2 + (k % 6) as usize;
                let mut h: Vec<u32> = match k % 5 {
                    0 => rand_cards(o, &mut rng, n),
                    1 | 2 => {
                        let mut h = rand_cards(o, &mut rng, n);
                        let i = rng.below(n as u64) as usize;
                        h[i] = near_miss(o, &mut rng);
                        h
                    }
                    3 => {
                        let mut h = rand_cards(o, &mut rng, n);
                        let i = rng.below(n as u64) as usize;
                        let j = rng.below(n as u64) as usize;
                        h[i] = h[j];
                        h
                    }
                    _ => (0..n).map(|_| near_miss(o, &mut rng)).collect(),
                };
                rng.shuffle(&mut h);
                out.ev(json!({"op":"valid","words":hilo_arr(&h)}));
            }
            for _ in 0..500 * scale {
                out.ev(json!({"op":"filter","w":hilo(near_miss(o, &mut rng))}));
            }
        }
        "C05" => {
            for k in 0..2000 * scale {
                let n = 5 + (k % 3) as usize;
                let pool = 1 + rng.below(6) as usize;
                let cards = rand_cards(o, &mut rng, pool);
                let h: Vec<u32> = (0..n).map(|_| if rng.below(4) == 0 { 0 } else { cards[rng.below(pool as u64) as usize] }).collect();
                out.ev(json!({"op": if n == 5 {"rank5"} else {"rankn"},"words":hilo_arr(&h)}));
            }
            out.ev(json!({"op":"rank5","words":hilo_arr(&[0,0,0,0,0])}));
            out.ev(json!({"op":"rankn","words":hilo_arr(&[0,0,0,0,0,0])}));
            out.ev(json!({"op":"rankn","words":hilo_arr(&[0,0,0,0,0,0,0])}));
            let mut keys: Vec<u64> = vec![0, 1, 2, 47, 48, 49, u64::MAX, 1 << 31, (1 << 31) - 1, 1 << 32, 104553157, 104553158];
            for (i, p) in o.products.iter().enumerate() {
                if i % 7 == (seed % 7) as usize || i < 3 || i + 3 >= o.products.len() {
                    keys.push(*p as u64);
                    keys.push(*p as u64 + 1);
                    keys.push(*p as u64 - 1);
                }
            }
            for _ in 0..300 * scale {
                keys.push(rng.next() >> rng.below(64));
            }
            for k in keys {
                out.ev(json!({"op":"find","key":limbs(k)}));
            }
        }
        "C06" => {
            let step = if thorough { 1 } else { 9 };
            for v in 0..=65535u32 {
                if v <= 7600 || v % step == (seed % step as u64) as u32 || v.is_power_of_two() || v == 65535 {
                    out.ev(json!({"op":"hr_from","v":v}));
                }
            }
            for _ in 0..300 * scale {
                let n = 5 + rng.below(3) as usize;
                let h = rand_cards(o, &mut rng, n);
                out.ev(json!({"op": if n == 5 {"rank5"} else {"rankn"},"words":hilo_arr(&h)}));
            }
            for v in [0u32, 1, 10, 11, 166, 167, 1599, 1600, 7462, 7463, 65535] {
                out.ev(json!({"op":"adv_hr","v":v}));
            }
        }
        "C07" => {
            let interesting: Vec<u32> = vec![0, 1, 2, 10, 11, 166, 167, 322, 323, 1599, 1600, 1609, 1610, 2467, 2468, 3325, 3326, 6185, 6186, 7461, 7462, 7463, 7464, 8000, 32767, 32768, 65534, 65535];
            for a in &interesting {
                for b in &interesting {
                    out.ev(json!({"op":"cmp","a":a,"b":b}));
                }
            }
            for _ in 0..3000 * scale {
                let a = if rng.below(3) == 0 { rng.below(65536) } else { rng.below(7470) };
                let b = if rng.below(3) == 0 { rng.below(65536) } else { rng.below(7470) };
                out.ev(json!({"op":"cmp","a":a,"b":b}));
            }
            for v in 1..o.n_classes as u32 {
                if v % 3 == (seed % 3) as u32 || o.class_of(v as u16) != o.class_of(v as u16 + 1) {
                    out.ev(json!({"op":"enum_cmp","a":v,"b":v + 1}));
                }
            }
            for _ in 0..1000 * scale {
                out.ev(json!({"op":"enum_cmp","a":1 + rng.below(7462),"b":1 + rng.below(7462)}));
            }
            // the Invalid member against real ones, both ways, and against itself
            for _ in 0..300 * scale {
                let inv = [0, 7463, 7464, 32768, 65535, 7463 + rng.below(58000)][rng.below(6) as usize];
                let real = 1 + rng.below(7462);
                out.ev(json!({"op":"enum_cmp","a":inv,"b":real}));
                out.ev(json!({"op":"enum_cmp","a":real,"b":inv}));
            }
            out.ev(json!({"op":"enum_cmp","a":0,"b":65535}));
            out.ev(json!({"op":"enum_cmp","a":7463,"b":0}));
        }
        "C08" => {
            for c in &o.cards {
                out.ev(json!({"op":"shift_word","w":hilo(c.w)}));
            }
            out.ev(json!({"op":"shift_word","w":hilo(0)}));
            for k in 0..1200 * scale {
                let n = 2 + (k % 6) as usize;
                let mut h = rand_cards(o, &mut rng, n);
                if k % 5 == 0 {
                    let i = rng.below(n as u64) as usize;
                    h[i] = 0;
                }
                out.ev(json!({"op":"shift_hand","pre":hilo_arr(&h)}));
                if n >= 5 && k % 5 != 0 {
                    // the value before and after one, two and three shifts: C08 relates them to each other
                    let mut cur = h.clone();
                    for _ in 0..3 {
                        out.ev(json!({"op":"shift_value","pre":hilo_arr(&cur)}));
                        cur = Hand::from_words(&cur).shift_suit().to_arr();
                        if cur.iter().any(|w| !o.word_to_card.contains_key(w)) {
                            break; // the shift left the deck: already rejected by the shift_value rule above
                        }
                    }
                }
            }
        }
        "C10" | "C20" => {
            for r in RANK_NAMES.iter() {
                for s in SUIT_NAMES.iter() {
                    out.ev(json!({"op":"create","rank":r,"suit":s}));
                }
            }
            for c in &o.cards {
                out.ev(json!({"op":"acc","w":hilo(c.w)}));
                out.ev(json!({"op":"filter","w":hilo(c.w)}));
            }
            out.ev(json!({"op":"acc","w":hilo(0)}));
            let marks = ["pair", "trips", "quads"];
            for c in &o.cards {
                for m in 0..8u32 {
                    let mut ms: Vec<&str> = (0..3).filter(|b| m & (1 << b) != 0).map(|b| marks[b]).collect();
                    rng.shuffle(&mut ms);
                    if m % 3 == 1 && !ms.is_empty() {
                        ms.push(ms[0]);
                    }
                    let e = observe(&json!({"op":"flag","w":hilo(c.w),"marks":ms}));
                    let marked = from_hilo(&e["res"]);
                    out.raw(e);
                    if id == "C20" || m == 7 {
                        out.ev(json!({"op":"acc","w":hilo(marked)}));
                    }
                }
            }
            for _ in 0..1500 * scale {
                out.ev(json!({"op":"filter","w":hilo(near_miss(o, &mut rng))}));
            }
            out.ev(json!({"op":"deck"}));
        }
        "C11" => {
            for k in 0..2500 * scale {
                let n = 2 + (k % 6) as usize;
                let h: Vec<u32> = (0..n)
                    .map(|_| match rng.below(5) {
                        0 => near_miss(o, &mut rng),
                        1 => rng.u32(),
                        _ => o.cards[rng.below(52) as usize].w,
                    })
                    .collect();
                out.ev(json!({"op":"sort","pre":hilo_arr(&h)}));
            }
            out.ev(json!({"op":"deck"}));
        }
        "C12" => {
            let mut cpsv: Vec<u32> = (0..0x300).collect();
            cpsv.extend(0x2000..0x2070);
            cpsv.extend(0x2600..0x2680);
            cpsv.extend([0x3000, 0xFEFF, 0xFFFD, 0x1F0A1, 0x10FFFF]);
            for _ in 0..300 * scale {
                cpsv.push(rng.below(0x110000) as u32);
            }
            for cp in cpsv {
                if char::from_u32(cp).is_some() {
                    out.ev(json!({"op":"rank_sym","cp":cp}));
                    out.ev(json!({"op":"suit_sym","cp":cp}));
                }
            }
            let syms: Vec<char> = o.rank_syms.keys().chain(o.suit_syms.keys()).map(|c| char::from_u32(*c).unwrap()).collect();
            let others = ['1', 'x', ' ', '\t', '\u{a0}', 'é', '€', '😀', '\u{301}'];
            let pick = |rng: &mut Rng| -> char {
                if rng.below(4) == 0 { others[rng.below(others.len() as u64) as usize] } else { syms[rng.below(syms.len() as u64) as usize] }
            };
            for _ in 0..2000 * scale {
                let len = rng.below(5) as usize;
                let s: String = (0..len).map(|_| pick(&mut rng)).collect();
                out.ev(json!({"op":"parse_card","s":cps(&s)}));
            }
            for c in &o.cards {
                out.ev(json!({"op":"parse_card","s":cps(&format!("{}{}", c.rank_char, c.suit_char))}));
                out.ev(json!({"op":"parse_card","s":cps(&format!("{}{}", c.rank_char, c.suit_letter))}));
            }
            let seps: Vec<char> = o.whitespace.iter().map(|c| char::from_u32(*c).unwrap()).collect();
            for k in 0..1200 * scale {
                let n = 2 + (k % 6) as usize;
                let ntok = rng.below(n as u64 + 3) as usize;
                let mut s = String::new();
                for t in 0..ntok {
                    if t > 0 || rng.below(4) == 0 {
                        s.push(seps[rng.below(seps.len() as u64) as usize]);
                    }
                    let len = 1 + rng.below(3) as usize;
                    for _ in 0..len {
                        let c = pick(&mut rng);
                        if !c.is_whitespace() {
                            s.push(c);
                        } else {
                            s.push('Q');
                        }
                    }
                }
                out.ev(json!({"op":"parse_hand","n":n,"s":cps(&s)}));
                if k % 4 == 0 {
                    out.ev(json!({"op":"parse_set","s":cps(&s)}));
                }
            }
        }
        "C14" => {
            for c in &o.cards {
                out.ev(json!({"op":"bc_from_ckc","w":hilo(c.w)}));
            }
            for b in 0..64 {
                out.ev(json!({"op":"ckc_from_bc","bc":limbs(1u64 << b)}));
            }
            for _ in 0..1500 * scale {
                out.ev(json!({"op":"bc_from_ckc","w":hilo(near_miss(o, &mut rng))}));
                let mut x = rng.next();
                for _ in 0..rng.below(6) {
                    x &= rng.next();
                }
                out.ev(json!({"op":"ckc_from_bc","bc":limbs(x)}));
            }
            out.ev(json!({"op":"deck"}));
        }
        "C15" => {
            // live sets: a history of fold / has / info / peel on one real u64 per object
            for obj in 0..60 * scale {
                let mut x: u64 = match obj % 6 {
                    0 => 0,
                    1 => o.all_bits,
                    2 => rng.next() & o.all_bits,
                    3 => rng.next(),
                    4 => rng.next() & rng.next() & rng.next(),
                    _ => o.overflow_bits | (1 << rng.below(52)),
                };
                out.raw(json!({"op":"bc_new","obj":obj,"post":limbs(x)}));
                for _ in 0..40 {
                    let pre = x;
                    match rng.below(5) {
                        0 => {
                            let arg = if rng.below(2) == 0 { 1u64 << rng.below(64) } else { rng.next() & rng.next() };
                            x = x.fold_in(arg);
                            out.raw(json!({"op":"bc_fold","obj":obj,"pre":limbs(pre),"arg":limbs(arg),"res":limbs(x)}));
                        }
                        1 => {
                            let arg = if rng.below(2) == 0 { 1u64 << rng.below(64) } else { x & rng.next() };
                            out.raw(json!({"op":"bc_has","obj":obj,"pre":limbs(pre),"arg":limbs(arg),"res":x.has(arg)}));
                        }
                        2 => {
                            out.raw(json!({"op":"bc_info","obj":obj,"pre":limbs(pre),"count":x.number_of_cards(),"valid":BC64::is_valid(&x),"single":x.is_single_card()}));
                        }
                        _ => {
                            let c = x.peel();
                            out.raw(json!({"op":"bc_peel","obj":obj,"pre":limbs(pre),"res":limbs(c),"post":limbs(x)}));
                        }
                    }
                }
            }
            for k in 0..800 * scale {
                let n = 2 + (k % 6) as usize;
                let psize = 1 + rng.below(7) as usize;
                let pool = rand_cards(o, &mut rng, psize);
                let h: Vec<u32> = (0..n).map(|_| if rng.below(5) == 0 { 0 } else { pool[rng.below(pool.len() as u64) as usize] }).collect();
                out.ev(json!({"op":"bc_from_hand","words":hilo_arr(&h)}));
            }
        }
        "C16" => {
            for a in 0..64u32 {
                for b in [0u32, 1, 13, 25, 26, 38, 50, 51, 52, 53, 63] {
                    out.ev(json!({"op":"two_from_bc","bc":limbs((1u64 << a) | (1u64 << b))}));
                }
            }
            out.ev(json!({"op":"two_from_bc","bc":limbs(0)}));
            for _ in 0..1000 * scale {
                let pc = rng.below(6);
                let mut x = 0u64;
                for _ in 0..pc {
                    let lim = if rng.below(4) == 0 { 64 } else { 52 };
                    x |= 1u64 << rng.below(lim);
                }
                out.ev(json!({"op":"two_from_bc","bc":limbs(x)}));
            }
        }
        "C17" => {
            for a in &o.cards {
                for b in &o.cards {
                    if a.i != b.i {
                        out.ev(json!({"op":"chen","a":hilo(a.w),"b":hilo(b.w)}));
                    }
                }
                out.ev(json!({"op":"acc","w":hilo(a.w)}));
            }
        }
        "C18" => {
            out.ev(json!({"op":"deck"}));
            for i in 0..56u64 {
                out.ev(json!({"op":"deck_get","index":limbs(i)}));
            }
            for b in 0..64 {
                out.ev(json!({"op":"deck_get","index":limbs(1u64 << b)}));
            }
            out.ev(json!({"op":"deck_get","index":limbs(u64::MAX)}));
            for _ in 0..500 * scale {
                out.ev(json!({"op":"deck_get","index":limbs(rng.next() >> rng.below(64))}));
            }
            for t in ["omaha", "six", "seven"] {
                out.ev(json!({"op":"table","name":t}));
            }
            for p in ["AA", "AK", "AKs", "AKo", "AQs", "AQo"] {
                out.ev(json!({"op":"preset","name":p}));
            }
        }
        "C19" => {
            // live containers: constructor, then setters; full post-state and every reader logged
            for obj in 0..40 * scale {
                let n = 2 + (obj % 6) as usize;
                let init: Vec<u32> = (0..n).map(|_| if rng.below(3) == 0 { near_miss(o, &mut rng) } else { rng.u32() }).collect();
                let parts = obj % 2 == 1;
                let mut h = if parts { Hand::from_parts(&init) } else { Hand::from_words(&init) };
                out.raw(json!({"op": if parts {"c_parts"} else {"c_from"},"obj":obj,"words":hilo_arr(&init),
                               "post":hilo_arr(&h.to_arr()),"acc":hilo_arr(&h.accessors()),"iter":hilo_arr(&h.iter_vec())}));
                for _ in 0..60 {
                    let pre = h.to_arr();
                    if n >= 6 && rng.below(6) == 0 {
                        let p: Vec<u8> = (0..5).map(|_| rng.below(n as u64) as u8).collect();
                        let f = h.five_from_permutation([p[0], p[1], p[2], p[3], p[4]]).unwrap();
                        out.raw(json!({"op":"select5","obj":obj,"pre":hilo_arr(&pre),"perm":p,"res":hilo_arr(&f.to_arr())}));
                    } else {
                        let slot = rng.below(n as u64) as usize;
                        let w = if rng.below(4) == 0 { near_miss(o, &mut rng) } else { rng.u32() };
                        h.set(slot, w);
                        out.raw(json!({"op":"c_set","obj":obj,"pre":hilo_arr(&pre),"slot":slot,"w":hilo(w),
                                       "post":hilo_arr(&h.to_arr()),"acc":hilo_arr(&h.accessors()),"iter":hilo_arr(&h.iter_vec()),"first":hilo(h.first())}));
                    }
                }
            }
            // constructors on arrays with blanks in leading / interior / trailing slots and words out of order
            for k in 0..60 * scale {
                let n = 2 + (k % 6) as usize;
                let obj = 1000 + k;
                let init: Vec<u32> = (0..n).map(|i| match rng.below(3) { 0 => 0, 1 => o.cards[((k as usize) * 7 + i * 5) % 52].w, _ => near_miss(o, &mut rng) }).collect();
                let parts = k % 2 == 0;
                let h = if parts { Hand::from_parts(&init) } else { Hand::from_words(&init) };
                out.raw(json!({"op": if parts {"c_parts"} else {"c_from"},"obj":obj,"words":hilo_arr(&init),
                               "post":hilo_arr(&h.to_arr()),"acc":hilo_arr(&h.accessors()),"iter":hilo_arr(&h.iter_vec())}));
            }
            for n in 2..=7u64 {
                out.ev(json!({"op":"c_default","n":n}));
            }
            // advisory extensions: serde round trip and the derived (lexicographic) ordering of containers
            for k in 0..150 * scale {
                let n = [2usize, 4, 5, 6, 7][(k % 5) as usize];
                let w: Vec<u32> = (0..n).map(|_| rng.u32()).collect();
                out.ev(json!({"op":"adv_serde","words":hilo_arr(&w)}));
                let n2 = 2 + (k % 6) as usize;
                let a: Vec<u32> = (0..n2).map(|_| if rng.below(2) == 0 { near_miss(o, &mut rng) } else { rng.u32() }).collect();
                let mut b = a.clone();
                if rng.below(4) != 0 {
                    let i = rng.below(n2 as u64) as usize;
                    b[i] = if rng.below(2) == 0 { b[i].wrapping_add(1) } else { rng.u32() };
                }
                out.ev(json!({"op":"adv_cmp","a":hilo_arr(&a),"b":hilo_arr(&b)}));
            }
            out.ev(json!({"op":"adv_consts"}));
        }
        _ => return None,
    }
    let _ = mix(0, 0);
    Some(out.n)
}
