//! Specification -> implementation, stateful part: replay behaviours that TLC generated from
//! spec/CkcSession.tla (simulation mode) into live ckc-rs objects -- a container, a card set, a
//! table of dealt cards -- and compare the real state with the state the specification expects
//! after every step.

use crate::hands::*;
use crate::util::*;
use ckc_rs::cards::binary_card::{BinaryCard, BC64};
use ckc_rs::cards::two::Two;
use ckc_rs::cards::HandValidator;
use ckc_rs::{CKCNumber, PokerCard};
use serde_json::{json, Value};

fn words_of(v: &Value) -> Vec<u32> {
    v.as_array().expect("array of words").iter().map(from_hilo).collect()
}
fn u64_of(v: &Value) -> u64 {
    let a = v.as_array().expect("limbs");
    (a[0].as_u64().unwrap() << 48) | (a[1].as_u64().unwrap() << 32) | (a[2].as_u64().unwrap() << 16) | a[3].as_u64().unwrap()
}

/// Which property owns each kind of step.
pub fn owner(op: &str) -> &'static [&'static str] {
    match op {
        "c_from" | "c_set" | "t_to_cont" | "c_select5" => &["C19"],
        "c_mark" => &["C20", "C19"],
        "x_find" => &["C05"],
        "s_has" => &["C15"],
        "t_parse" => &["C12"],
        "x_cmp" => &["C07"],
        "c_sort" => &["C11"],
        "c_shift" => &["C08"],
        "c_valid" => &["C04"],
        "c_rank" => &["C02", "C04", "C05"],
        "c_to_set" | "s_fold" | "s_peel" | "s_info" => &["C15", "C14"],
        "s_two" => &["C16"],
        "t_deal" | "t_clear" => &["C09", "C02", "C06"],
        "t_chen" => &["C17"],
        _ => &[],
    }
}

/// Replay one behaviour.  Returns None if every step agreed, else (step index, op, detail).
pub fn replay_behaviour(steps: &[Value]) -> Option<(usize, String, Value)> {
    let mut h = Hand::default_of(2);
    let mut x: u64 = 0;
    let mut table: Vec<u32> = vec![];
    for (k, st) in steps.iter().enumerate() {
        let op = st["op"].as_str().unwrap_or("?");
        let a = &st["args"];
        let e = &st["expect"];
        let r: Result<Result<(), Value>, String> = guarded(|| {
            match op {
                "c_from" => {
                    let init = words_of(&a["words"]);
                    h = if a["parts"].as_u64() == Some(1) { Hand::from_parts(&init) } else { Hand::from_words(&init) };
                    let post = words_of(&e["post"]);
                    if h.to_arr() != post || h.accessors() != post || h.iter_vec() != post {
                        return Err(json!({"got": hilo_arr(&h.to_arr())}));
                    }
                }
                "c_set" => {
                    h.set(a["slot"].as_u64().unwrap() as usize, from_hilo(&a["w"]));
                    let post = words_of(&e["post"]);
                    if h.to_arr() != post || h.accessors() != post || h.iter_vec() != post || h.first() != post[0] {
                        return Err(json!({"got": hilo_arr(&h.to_arr())}));
                    }
                }
                "c_mark" => {
                    let slot = a["slot"].as_u64().unwrap() as usize;
                    let w = h.get(slot);
                    let m = match a["mark"].as_str().unwrap() {
                        "pair" => w.flag_as_pair(),
                        "trips" => w.flag_as_trips(),
                        _ => w.flag_as_quads(),
                    };
                    h.set(slot, m);
                    let post = words_of(&e["post"]);
                    if h.to_arr() != post || h.accessors() != post {
                        return Err(json!({"got": hilo_arr(&h.to_arr())}));
                    }
                }
                "c_select5" => {
                    let p: Vec<u8> = a["perm"].as_array().unwrap().iter().map(|x| x.as_u64().unwrap() as u8).collect();
                    let f = h.five_from_permutation([p[0], p[1], p[2], p[3], p[4]]).expect("six or seven slots");
                    if f.to_arr().to_vec() != words_of(&e["res"]) {
                        return Err(json!({"got": hilo_arr(&f.to_arr())}));
                    }
                }
                "x_find" => {
                    // must return normally; the index itself is advisory (not compared here)
                    let _ = ckc_rs::cards::five::Five::find_in_products(a["key"].as_u64().unwrap() as usize);
                }
                "s_has" => {
                    if json!(x.has(u64_of(&a["arg"]))) != e["res"] {
                        return Err(json!({"got": x.has(u64_of(&a["arg"]))}));
                    }
                }
                "t_parse" => {
                    let text: String = a["s"].as_array().unwrap().iter().map(|c| char::from_u32(c.as_u64().unwrap() as u32).unwrap()).collect();
                    match Hand::parse(a["n"].as_u64().unwrap() as usize, &text) {
                        Ok(p) => {
                            h = p;
                            if h.to_arr() != words_of(&e["post"]) {
                                return Err(json!({"got": hilo_arr(&h.to_arr())}));
                            }
                        }
                        Err(err) => return Err(json!({"got": err})),
                    }
                }
                "x_cmp" => {
                    use ckc_rs::hand_rank::HandRank;
                    let (ra, rb) = (HandRank::from(a["a"].as_u64().unwrap() as u16), HandRank::from(a["b"].as_u64().unwrap() as u16));
                    let got = format!("{:?}", ra.cmp(&rb));
                    let exp = e["cmp"].as_str().unwrap();
                    let ok = if exp == "NotEqual" { got != "Equal" } else { got == exp };
                    if !ok || (ra < rb) != (got == "Less") || (ra == rb) != (a["a"] == a["b"]) {
                        return Err(json!({"got": got}));
                    }
                }
                "c_sort" => {
                    let post = words_of(&e["post"]);
                    let copy = h.sort();
                    h.sort_in_place();
                    if h.to_arr() != post || copy.to_arr() != post {
                        return Err(json!({"got": hilo_arr(&h.to_arr()), "copy": hilo_arr(&copy.to_arr())}));
                    }
                }
                "c_shift" => {
                    h = h.shift_suit();
                    if h.to_arr() != words_of(&e["post"]) {
                        return Err(json!({"got": hilo_arr(&h.to_arr())}));
                    }
                }
                "c_valid" => {
                    if json!(h.is_valid()) != e["valid"] || json!(h.contain_blank()) != e["blank"] {
                        return Err(json!({"got_valid": h.is_valid(), "got_blank": h.contain_blank()}));
                    }
                }
                "c_to_set" => {
                    x = h.to_binary();
                    if x != u64_of(&e["post"]) {
                        return Err(json!({"got": limbs(x)}));
                    }
                }
                "s_fold" => {
                    x = x.fold_in(u64_of(&a["arg"]));
                    if x != u64_of(&e["post"]) {
                        return Err(json!({"got": limbs(x)}));
                    }
                }
                "s_peel" => {
                    let c = x.peel();
                    if c != u64_of(&e["card"]) || x != u64_of(&e["post"]) || CKCNumber::from_binary_card(c) != from_hilo(&e["word"]) {
                        return Err(json!({"got_card": limbs(c), "got_post": limbs(x)}));
                    }
                }
                "s_info" => {
                    if json!(x.number_of_cards()) != e["count"] || json!(BC64::is_valid(&x)) != e["valid"] || json!(x.is_single_card()) != e["single"] {
                        return Err(json!({"got_count": x.number_of_cards(), "got_valid": BC64::is_valid(&x), "got_single": x.is_single_card()}));
                    }
                }
                "s_two" => {
                    let kind = e["kind"].as_str().unwrap();
                    match Two::try_from(x) {
                        Ok(t) => {
                            if kind != "ok" || t.to_arr().to_vec() != words_of(&e["cards"]) || BinaryCard::from_two(t) != x {
                                return Err(json!({"got": hilo_arr(&t.to_arr())}));
                            }
                            h = Hand::H2(t);
                        }
                        Err(err) => {
                            if format!("{:?}", err) != kind {
                                return Err(json!({"got": format!("{:?}", err)}));
                            }
                        }
                    }
                }
                "t_deal" => {
                    table.push(from_hilo(&a["w"]));
                    if json!(table.len()) != e["n"] {
                        return Err(json!({"got_n": table.len()}));
                    }
                    if table.len() >= 5 {
                        let t = Hand::from_words(&table);
                        let hr = hand_rank(&t);
                        let got = json!({"value": hr.value, "name": format!("{:?}", hr.name), "class": format!("{:?}", hr.class)});
                        if got["value"] != e["value"] || got["name"] != e["name"] || got["class"] != e["class"]
                            || json!(rank_value(&t)) != e["value"] || json!(rank_value_validated(&t)) != e["value"]
                        {
                            return Err(got);
                        }
                    }
                }
                "t_clear" => table.clear(),
                "t_chen" => {
                    let t = Two::new(table[0], table[1]);
                    let got = json!({"score": t.chen_formula(), "gap": t.get_gap(), "high": hilo(t.high_card())});
                    if got["score"] != e["score"] || got["gap"] != e["gap"] || got["high"] != e["high"] {
                        return Err(got);
                    }
                }
                "t_to_cont" => {
                    h = Hand::from_words(&table);
                    if h.to_arr() != words_of(&e["post"]) {
                        return Err(json!({"got": hilo_arr(&h.to_arr())}));
                    }
                }
                "c_rank" => {
                    // card-or-blank container of 5..7 slots: must not unwind; validated value as expected;
                    // the unvalidated value is strict only for a valid hand
                    let v = rank_value(&h);
                    let vv = rank_value_validated(&h);
                    let strict = e["strict"].as_bool().unwrap_or(false);
                    if json!(vv) != e["validated"] || (strict && json!(v) != e["value"]) {
                        return Err(json!({"got_value": v, "got_validated": vv}));
                    }
                }
                other => return Err(json!({"unknown_op": other})),
            }
            Ok(())
        });
        match r {
            Ok(Ok(())) => {}
            Ok(Err(detail)) => return Some((k, op.to_string(), detail)),
            Err(p) => return Some((k, op.to_string(), json!({"panic": p}))),
        }
    }
    None
}

/// Replay a file of behaviours (one JSON array per line).  Output: a JSON report.
pub fn run(path: &str) -> Value {
    let text = std::fs::read_to_string(path).expect("read behaviours");
    let mut behaviours = 0u64;
    let mut steps = 0u64;
    let mut failures: Vec<Value> = vec![];
    let mut ops: std::collections::BTreeMap<String, u64> = Default::default();
    let mut sample = Value::Null;
    for line in text.lines() {
        if line.trim().is_empty() {
            continue;
        }
        let b: Value = serde_json::from_str(line).expect("behaviour is a JSON array");
        let arr = b.as_array().expect("behaviour is an array");
        behaviours += 1;
        steps += arr.len() as u64;
        for s in arr {
            *ops.entry(s["op"].as_str().unwrap_or("?").to_string()).or_insert(0) += 1;
        }
        if sample.is_null() {
            sample = Value::Array(arr.iter().take(6).cloned().collect());
        }
        if let Some((k, op, detail)) = replay_behaviour(arr) {
            if failures.len() < 10 {
                failures.push(json!({"step": k, "op": op, "owners": owner(&op), "detail": detail,
                                     "expected": arr[k]["expect"], "steps": Value::Array(arr[..=k].to_vec())}));
            }
        }
    }
    json!({"behaviours": behaviours, "steps": steps, "ops": ops, "failures": failures, "sample": sample})
}
