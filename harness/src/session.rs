//! Specification -> implementation, stateful part: replay behaviours that TLC generated from
//! spec/CkcSession.tla (simulation mode) into live ckc-rs objects -- a container, a card set, a
//! table of dealt cards -- and compare the real state with the state the specification expects
//! after every step.

use crate::hands::*;
use crate::util::*;
use ckc_rs::cards::binary_card::{BinaryCard, BC64};
use ckc_rs::cards::two::Two;
use ckc_rs::cards::HandValidator;
use ckc_rs::{CKCNumber, PokerCard};
use serde_json::{json, Value};

fn words_of(v: &Value) -> Vec<u32> {
    v.as_array().expect("array of words").iter().map(from_hilo).collect()
}
fn u64_of(v: &Value) -> u64 {
    let a = v.as_array().expect("limbs");
    (a[0].as_u64().unwrap() << 48) | (a[1].as_u64().unwrap() << 32) | (a[2].as_u64().unwrap() << 16) | a[3].as_u64().unwrap()
}

/// Which property owns each kind of step (a failing step may narrow this down: see `fail`).
/// Only the properties whose statement covers the failed comparison are named, so that a check never
/// raises an alarm about a statement it does not own.
pub fn owner(op: &str) -> &'static [&'static str] {
    match op {
        "c_from" | "c_set" | "t_to_cont" | "c_select5" => &["C19"],
        "c_mark" => &["C20"],
        "x_find" => &["C05"],
        "s_has" | "c_to_set" | "s_fold" | "s_peel" | "s_info" => &["C15"],
        "t_parse" => &["C12"],
        "x_cmp" => &["C07"],
        "c_sort" => &["C11"],
        "c_shift" => &["C08"],
        "c_valid" => &["C04"],
        "s_two" => &["C16"],
        "t_chen" => &["C17"],
        _ => &[],
    }
}

type Fail = (Value, Vec<&'static str>);
fn fail(op: &str, detail: Value) -> Result<(), Fail> {
    Err((detail, owner(op).to_vec()))
}
fn fail_as(owners: &[&'static str], detail: Value) -> Result<(), Fail> {
    Err((detail, owners.to_vec()))
}

/// Replay one behaviour.  Returns None if every step agreed, else (step index, op, detail).
pub fn replay_behaviour(steps: &[Value]) -> Option<(usize, String, Value, Vec<&'static str>)> {
    let mut h = Hand::default_of(2);
    let mut x: u64 = 0;
    let mut table: Vec<u32> = vec![];
    let mut prev_deal: Option<u16> = None;
    for (k, st) in steps.iter().enumerate() {
        let op = st["op"].as_str().unwrap_or("?");
        let a = &st["args"];
        let e = &st["expect"];
        let r: Result<Result<(), Fail>, String> = guarded(|| {
            match op {
                "c_from" => {
                    let init = words_of(&a["words"]);
                    h = if a["parts"].as_u64() == Some(1) { Hand::from_parts(&init) } else { Hand::from_words(&init) };
                    let post = words_of(&e["post"]);
                    if h.to_arr() != post || h.accessors() != post || h.iter_vec() != post {
                        return fail(op, json!({"got": hilo_arr(&h.to_arr())}));
                    }
                }
                "c_set" => {
                    h.set(a["slot"].as_u64().unwrap() as usize, from_hilo(&a["w"]));
                    let post = words_of(&e["post"]);
                    if h.to_arr() != post || h.accessors() != post || h.iter_vec() != post || h.first() != post[0] {
                        return fail(op, json!({"got": hilo_arr(&h.to_arr())}));
                    }
                }
                "c_mark" => {
                    let slot = a["slot"].as_u64().unwrap() as usize;
                    let w = h.get(slot);
                    let m = match a["mark"].as_str().unwrap() {
                        "pair" => w.flag_as_pair(),
                        "trips" => w.flag_as_trips(),
                        _ => w.flag_as_quads(),
                    };
                    let post = words_of(&e["post"]);
                    // C20 speaks of marking a card (or an already marked card); for any other word the marked
                    // word is named by no property: take the specification's word so that the histories stay aligned
                    let is_card_like = ckc_rs::CardNumber::filter(w.strip_multiples_flags()) != 0;
                    h.set(slot, if is_card_like { m } else { post[slot] });
                    if h.to_arr() != post || h.accessors() != post {
                        return fail(op, json!({"got": hilo_arr(&h.to_arr())}));
                    }
                }
                "c_select5" => {
                    let p: Vec<u8> = a["perm"].as_array().unwrap().iter().map(|x| x.as_u64().unwrap() as u8).collect();
                    let f = h.five_from_permutation([p[0], p[1], p[2], p[3], p[4]]).expect("six or seven slots");
                    if f.to_arr().to_vec() != words_of(&e["res"]) {
                        return fail(op, json!({"got": hilo_arr(&f.to_arr())}));
                    }
                }
                "x_find" => {
                    // must return normally; the index itself is advisory (not compared here)
                    let _ = ckc_rs::cards::five::Five::find_in_products(a["key"].as_u64().unwrap() as usize);
                }
                "s_has" => {
                    if json!(x.has(u64_of(&a["arg"]))) != e["res"] {
                        return fail(op, json!({"got": x.has(u64_of(&a["arg"]))}));
                    }
                }
                "t_parse" => {
                    let text: String = a["s"].as_array().unwrap().iter().map(|c| char::from_u32(c.as_u64().unwrap() as u32).unwrap()).collect();
                    match Hand::parse(a["n"].as_u64().unwrap() as usize, &text) {
                        Ok(p) => {
                            h = p;
                            if h.to_arr() != words_of(&e["post"]) {
                                return fail(op, json!({"got": hilo_arr(&h.to_arr())}));
                            }
                        }
                        Err(err) => return fail(op, json!({"got": err})),
                    }
                }
                "x_cmp" => {
                    use ckc_rs::hand_rank::HandRank;
                    let (ra, rb) = (HandRank::from(a["a"].as_u64().unwrap() as u16), HandRank::from(a["b"].as_u64().unwrap() as u16));
                    let got = format!("{:?}", ra.cmp(&rb));
                    let exp = e["cmp"].as_str().unwrap();
                    let ok = if exp == "NotEqual" { got != "Equal" } else { got == exp };
                    if !ok || (ra < rb) != (got == "Less") || (ra == rb) != (a["a"] == a["b"]) {
                        return fail(op, json!({"got": got}));
                    }
                }
                "c_sort" => {
                    let post = words_of(&e["post"]);
                    let copy = h.sort();
                    h.sort_in_place();
                    if h.to_arr() != post || copy.to_arr() != post {
                        return fail(op, json!({"got": hilo_arr(&h.to_arr()), "copy": hilo_arr(&copy.to_arr())}));
                    }
                }
                "c_shift" => {
                    h = h.shift_suit();
                    if h.to_arr() != words_of(&e["post"]) {
                        return fail(op, json!({"got": hilo_arr(&h.to_arr())}));
                    }
                }
                "c_valid" => {
                    if json!(h.is_valid()) != e["valid"] {
                        return fail(op, json!({"got_valid": h.is_valid(), "got_blank": h.contain_blank()}));
                    }
                }
                "c_to_set" => {
                    x = h.to_binary();
                    if x != u64_of(&e["post"]) {
                        return fail(op, json!({"got": limbs(x)}));
                    }
                }
                "s_fold" => {
                    x = x.fold_in(u64_of(&a["arg"]));
                    if x != u64_of(&e["post"]) {
                        return fail(op, json!({"got": limbs(x)}));
                    }
                }
                "s_peel" => {
                    let c = x.peel();
                    if c != u64_of(&e["card"]) || x != u64_of(&e["post"]) {
                        let d = json!({"got_card": limbs(c), "got_post": limbs(x)});
                        x = u64_of(&e["post"]);
                        return fail(op, d);
                    }
                    if CKCNumber::from_binary_card(c) != from_hilo(&e["word"]) {
                        return fail_as(&["C14"], json!({"got_word": hilo(CKCNumber::from_binary_card(c))}));
                    }
                }
                "s_info" => {
                    if json!(x.number_of_cards()) != e["count"] || json!(BC64::is_valid(&x)) != e["valid"] || json!(x.is_single_card()) != e["single"] {
                        return fail(op, json!({"got_count": x.number_of_cards(), "got_valid": BC64::is_valid(&x), "got_single": x.is_single_card()}));
                    }
                }
                "s_two" => {
                    let kind = e["kind"].as_str().unwrap();
                    match Two::try_from(x) {
                        Ok(t) => {
                            if kind != "ok" || t.to_arr().to_vec() != words_of(&e["cards"]) || BinaryCard::from_two(t) != x {
                                return fail(op, json!({"got": hilo_arr(&t.to_arr())}));
                            }
                            h = Hand::H2(t);
                        }
                        Err(err) => {
                            if format!("{:?}", err) != kind {
                                return fail(op, json!({"got": format!("{:?}", err)}));
                            }
                        }
                    }
                }
                "t_deal" => {
                    table.push(from_hilo(&a["w"]));
                    if json!(table.len()) != e["n"] {
                        return fail_as(&[], json!({"got_n": table.len()}));
                    }
                    if table.len() >= 5 {
                        let t = Hand::from_words(&table);
                        let hr = hand_rank(&t);
                        let got = json!({"value": hr.value, "name": format!("{:?}", hr.name), "class": format!("{:?}", hr.class)});
                        let v = rank_value(&t);
                        // what the value is: C01 (five cards) / C02 (six, seven), through the unvalidated entry points
                        let value_owner: &[&'static str] = if table.len() == 5 { &["C01"] } else { &["C02"] };
                        if got["value"] != e["value"] || json!(v) != e["value"] {
                            return fail_as(value_owner, got);
                        }
                        // the reported rank describes the cards: C06
                        if got["name"] != e["name"] || got["class"] != e["class"] {
                            return fail_as(&["C06"], got);
                        }
                        // validated = unvalidated on a valid hand: C04
                        if rank_value_validated(&t) != v {
                            return fail_as(&["C04"], json!({"got_validated": rank_value_validated(&t), "value": v}));
                        }
                        // one more card never weakens the hand: C09 (code against code)
                        if let Some(p) = prev_deal {
                            if v > p {
                                return fail_as(&["C09"], json!({"value": v, "value_before_this_card": p}));
                            }
                        }
                        prev_deal = Some(v);
                    }
                }
                "t_clear" => {
                    table.clear();
                    prev_deal = None;
                }
                "t_chen" => {
                    let t = Two::new(table[0], table[1]);
                    let got = json!({"score": t.chen_formula(), "gap": t.get_gap(), "high": hilo(t.high_card())});
                    if got["score"] != e["score"] || got["gap"] != e["gap"] || got["high"] != e["high"] {
                        return fail(op, got);
                    }
                }
                "t_to_cont" => {
                    h = Hand::from_words(&table);
                    if h.to_arr() != words_of(&e["post"]) {
                        return fail(op, json!({"got": hilo_arr(&h.to_arr())}));
                    }
                }
                "c_rank" => {
                    // card-or-blank container of 5..7 slots.  Unwinding is C05 (caught below).  For a valid hand
                    // the value is C01 / C02 and validated = unvalidated is C04; for a non-hand validated = 0 is C04
                    let v = rank_value(&h);
                    let vv = rank_value_validated(&h);
                    let strict = e["strict"].as_bool().unwrap_or(false);
                    let value_owner: &[&'static str] = if h.len() == 5 { &["C01"] } else { &["C02"] };
                    if strict {
                        if json!(v) != e["value"] {
                            return fail_as(value_owner, json!({"got_value": v, "got_validated": vv}));
                        }
                        if vv != v {
                            return fail_as(&["C04"], json!({"got_value": v, "got_validated": vv}));
                        }
                    } else if vv != 0 {
                        return fail_as(&["C04"], json!({"got_value": v, "got_validated": vv}));
                    }
                }
                other => return fail_as(&[], json!({"unknown_op": other})),
            }
            Ok(())
        });
        match r {
            Ok(Ok(())) => {}
            Ok(Err((detail, owners))) => return Some((k, op.to_string(), detail, owners)),
            Err(p) => {
                // a call into the code under test unwound: the owners of the step, and C05 for ranking a
                // card-or-blank hand
                let mut owners = owner(op).to_vec();
                if matches!(op, "c_rank" | "t_deal") {
                    owners = vec!["C05"];
                }
                return Some((k, op.to_string(), json!({"panic": p}), owners));
            }
        }
    }
    None
}

/// Replay a file of behaviours (one JSON array per line).  Output: a JSON report.
pub fn run(path: &str) -> Value {
    let text = std::fs::read_to_string(path).expect("read behaviours");
    let mut behaviours = 0u64;
    let mut steps = 0u64;
    let mut failures: Vec<Value> = vec![];
    let mut ops: std::collections::BTreeMap<String, u64> = Default::default();
    let mut sample = Value::Null;
    for line in text.lines() {
        if line.trim().is_empty() {
            continue;
        }
        let b: Value = serde_json::from_str(line).expect("behaviour is a JSON array");
        let arr = b.as_array().expect("behaviour is an array");
        behaviours += 1;
        steps += arr.len() as u64;
        for s in arr {
            *ops.entry(s["op"].as_str().unwrap_or("?").to_string()).or_insert(0) += 1;
        }
        if sample.is_null() {
            sample = Value::Array(arr.iter().take(6).cloned().collect());
        }
        if let Some((k, op, detail, owners)) = replay_behaviour(arr) {
            if failures.len() < 10 {
                failures.push(json!({"step": k, "op": op, "owners": owners, "detail": detail,
                                     "expected": arr[k]["expect"], "steps": Value::Array(arr[..=k].to_vec())}));
            }
        }
    }
    json!({"behaviours": behaviours, "steps": steps, "ops": ops, "failures": failures, "sample": sample})
}
