#!/bin/sh
# Build the framework from files on disk only (offline): the replay/trace harness in both build
# profiles (path dependency on /repo) and the oracle tables TLC generates from spec/Gen.tla.
set -e
cd "$(dirname "$0")"
export CARGO_NET_OFFLINE=true
mkdir -p work gen evidence replays
[ -f harness/Cargo.lock ] || cp /repo/Cargo.lock harness/Cargo.lock
(cd harness && cargo build --offline --release && cargo build --offline --profile checked)
python3 - <<'PY'
import importlib.machinery, importlib.util, sys
loader = importlib.machinery.SourceFileLoader("check", "./check")
spec = importlib.util.spec_from_loader("check", loader)
m = importlib.util.module_from_spec(spec); loader.exec_module(m)
try:
    m.ensure_gen()
except m.ToolError as e:
    print("TOOL-ERROR:", e); sys.exit(2)
print("setup ok")
PY
