SPECIFICATION Spec
CONSTANT DeckName = "big"
INVARIANT WitnessOk
CHECK_DEADLOCK FALSE
