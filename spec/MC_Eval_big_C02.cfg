SPECIFICATION Spec
CONSTANT DeckName = "big"
INVARIANT ValueAgree
CHECK_DEADLOCK FALSE
