------------------------------ MODULE MC_Parse ------------------------------
(***************************************************************************)
(* C12: every string up to MaxLen characters over an abstract alphabet     *)
(* (rank symbols of several kinds, the non-symbol digit '1', suit letter   *)
(* and glyph, three kinds of white space, 2-/3-/4-byte non-symbols); a     *)
(* step appends one character.                                             *)
(***************************************************************************)
EXTENDS ParseSpec, TLC

CONSTANT MaxLen
Alpha == {65, 107, 48, 49, 55, 83, 99, 9829, 32, 160, 9, 233, 8364, 128512}

VARIABLE s_str
Init == s_str = <<>>
Next == Len(s_str) < MaxLen /\ \E ch \in Alpha : s_str' = Append(s_str, ch)
Spec == Init /\ [][Next]_s_str

Toks == Split(s_str)
TokenRule == /\ ParseToken(s_str) = ParseTokenSpec(s_str)
             /\ IsCardWord(ParseToken(s_str)) <=>
                  (Len(s_str) >= 2 /\ RankSym(s_str[1]) # NoRank /\ SuitSym(s_str[2]) # NoSuit)
             /\ ParseToken(s_str) \in CardWords \cup {Blank}
SplitRule == /\ \A i \in 1..Len(Toks) : Toks[i] # <<>> /\ \A k \in 1..Len(Toks[i]) : Toks[i][k] \notin WhiteSpace
             /\ Len(SelectSeq(s_str, LAMBDA ch : ch \notin WhiteSpace))
                  = FoldLeft(LAMBDA a, t : a + Len(t), 0, Toks)
             /\ (Toks = <<>>) = (\A k \in 1..Len(s_str) : s_str[k] \in WhiteSpace)
HandRule == \A n \in 2..7 :
              /\ (ParseHand(n, s_str).kind = InvalidIndex) = (Len(Toks) < n)
              /\ (Len(Toks) >= n => ParseHand(n, s_str).words = [i \in 1..n |-> ParseTokenSpec(Toks[i])])
CardBitsAll == 0..51
SetRule == ParseSetBits(s_str) \subseteq CardBitsAll

ASSUME \A r \in Ranks, s \in Suits : ParseToken(RenderGlyph(r, s)) = WordOf(r, s) /\ ParseToken(RenderLetter(r, s)) = WordOf(r, s)
ASSUME Cardinality(RankSymbols) = 19 /\ Cardinality(SuitSymbols) = 16
ASSUME Cardinality({p[1] : p \in RankSymbols}) = 19 /\ Cardinality({p[1] : p \in SuitSymbols}) = 16
ASSUME ParseToken(<<>>) = Blank /\ ParseToken(<<65>>) = Blank /\ ParseToken(<<65, 83, 120, 121>>) = WordOf(12, 3)
ASSUME Split(<<32, 65, 83, 160, 9, 75, 100, 32>>) = <<<<65, 83>>, <<75, 100>>>>
=============================================================================
