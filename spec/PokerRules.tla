----------------------------- MODULE PokerRules -----------------------------
(***************************************************************************)
(* The rules of five-card poker, stated without any table.                 *)
(*                                                                         *)
(* A card is <<rank, suit>>.  The equivalence class of a five-card hand is *)
(* <<ranks, flush>>: `ranks' a non-increasing 5-tuple that is not five of  *)
(* a kind, `flush' possible only when the five ranks are distinct.         *)
(* There are 6175 + 1287 = 7462 classes.  Ordinal(c) is 1 + the number of  *)
(* classes that beat c; it is the value ckc-rs must return (property C01). *)
(***************************************************************************)
EXTENDS CkcBase, SequencesExt, FiniteSetsExt, TLC

Cards == Ranks \X Suits

RankTuples == { t \in Ranks \X Ranks \X Ranks \X Ranks \X Ranks :
                  /\ t[1] >= t[2] /\ t[2] >= t[3] /\ t[3] >= t[4] /\ t[4] >= t[5]
                  /\ t[1] # t[5] }
Distinct(t) == t[1] > t[2] /\ t[2] > t[3] /\ t[3] > t[4] /\ t[4] > t[5]
Classes == {<<t, FALSE>> : t \in RankTuples} \cup {<<t, TRUE>> : t \in {u \in RankTuples : Distinct(u)}}

Mult(t, r) == Cardinality({i \in 1..5 : t[i] = r})
NDistinct(t) == Cardinality({t[i] : i \in 1..5})
(* No CHOOSE here: TLC does not pre-evaluate (cache) constants whose definition reaches a CHOOSE. *)
MaxMult(t) == IF \E i \in 1..5 : Mult(t, t[i]) = 4 THEN 4
              ELSE IF \E i \in 1..5 : Mult(t, t[i]) = 3 THEN 3
              ELSE IF \E i \in 1..5 : Mult(t, t[i]) = 2 THEN 2 ELSE 1

Wheel == <<12, 3, 2, 1, 0>>
IsStraightT(t) == Distinct(t) /\ (t[1] - t[5] = 4 \/ t = Wheel)
StraightHigh(t) == IF t = Wheel THEN 3 ELSE t[1]
StraightTuple(h) == IF h = 3 THEN Wheel ELSE <<h, h - 1, h - 2, h - 3, h - 4>>

(* Categories, strongest first.                                            *)
StraightFlush == 0
FourOfAKind == 1
FullHouse == 2
Flush == 3
Straight == 4
ThreeOfAKind == 5
TwoPair == 6
Pair == 7
HighCard == 8
CategoryNames == <<"StraightFlush", "FourOfAKind", "FullHouse", "Flush", "Straight",
                   "ThreeOfAKind", "TwoPair", "Pair", "HighCard">>
CategoryName(k) == CategoryNames[k + 1]

Category(c) ==
    LET t == c[1] f == c[2] nd == NDistinct(t) mm == MaxMult(t) IN
    IF nd = 5 THEN (IF IsStraightT(t) THEN (IF f THEN StraightFlush ELSE Straight)
                    ELSE (IF f THEN Flush ELSE HighCard))
    ELSE IF nd = 4 THEN Pair
    ELSE IF nd = 3 THEN (IF mm = 3 THEN ThreeOfAKind ELSE TwoPair)
    ELSE (IF mm = 4 THEN FourOfAKind ELSE FullHouse)

(* Tie-break vector: the five ranks ordered by (multiplicity, rank)        *)
(* descending -- quads then kicker, trips then pair, ... -- and for        *)
(* straights only the top rank (five for the wheel).                       *)
Grouped(t) == SelectSeq(t, LAMBDA r : Mult(t, r) = 4) \o SelectSeq(t, LAMBDA r : Mult(t, r) = 3)
              \o SelectSeq(t, LAMBDA r : Mult(t, r) = 2) \o SelectSeq(t, LAMBDA r : Mult(t, r) = 1)
Tie(c) == IF IsStraightT(c[1]) THEN <<StraightHigh(c[1]), 0, 0, 0, 0>> ELSE Grouped(c[1])

Key(c) == LET v == Tie(c) IN
          (8 - Category(c)) * 371293 + v[1] * 28561 + v[2] * 2197 + v[3] * 169 + v[4] * 13 + v[5]
Beats(c, d) == Key(c) > Key(d)

(* Lexicographic statement of the same order, used to validate Key.        *)
LexGt(a, b) == \E i \in 1..Len(a) : a[i] > b[i] /\ \A j \in 1..(i - 1) : a[j] = b[j]
BeatsByRules(c, d) == \/ Category(c) < Category(d)
                      \/ Category(c) = Category(d) /\ LexGt(Tie(c), Tie(d))

---------------------------------------------------------------------------
(* The strength order and the ordinal.                                     *)
KeyedClasses == {<<Key(c), c>> : c \in Classes}
Sorted == SetToSortSeq(KeyedClasses, LAMBDA a, b : a[1] > b[1])
NClasses == Len(Sorted)

RECURSIVE FindKey(_, _, _)
FindKey(k, lo, hi) ==
    IF lo > hi THEN 0
    ELSE LET mid == (lo + hi) \div 2 IN
         IF Sorted[mid][1] = k THEN mid
         ELSE IF Sorted[mid][1] > k THEN FindKey(k, mid + 1, hi) ELSE FindKey(k, lo, mid - 1)
Ordinal(c) == FindKey(Key(c), 1, NClasses)
ClassAt(v) == Sorted[v][2]
OrdinalByCounting(c) == 1 + Cardinality({i \in 1..NClasses : Sorted[i][1] > Key(c)})

---------------------------------------------------------------------------
(* Names of the 309 classes, built from the ranks that define them.        *)
Plural == <<"Deuces", "Treys", "Fours", "Fives", "Sixes", "Sevens", "Eights", "Nines",
            "Tens", "Jacks", "Queens", "Kings", "Aces">>
Singular == <<"Two", "Three", "Four", "Five", "Six", "Seven", "Eight", "Nine",
              "Ten", "Jack", "Queen", "King", "Ace">>
Pl(r) == Plural[r + 1]
Sg(r) == Singular[r + 1]

ClassName(c) ==
    LET k == Category(c) g == Tie(c) IN
    CASE k = StraightFlush -> IF g[1] = 12 THEN "RoyalFlush" ELSE Sg(g[1]) \o "HighStraightFlush"
      [] k = FourOfAKind   -> "Four" \o Pl(g[1])
      [] k = FullHouse     -> Pl(g[1]) \o "Over" \o Pl(g[4])
      [] k = Flush         -> Sg(g[1]) \o "HighFlush"
      [] k = Straight      -> Sg(g[1]) \o "HighStraight"
      [] k = ThreeOfAKind  -> "Three" \o Pl(g[1])
      [] k = TwoPair       -> Pl(g[1]) \o "And" \o Pl(g[3])
      [] k = Pair          -> "PairOf" \o Pl(g[1])
      [] k = HighCard      -> Sg(g[1]) \o "High"

---------------------------------------------------------------------------
(* From cards to classes.                                                  *)
RECURSIVE RanksDescFrom(_, _)
RanksDescFrom(cnt, r) == IF r < 0 THEN <<>> ELSE [i \in 1..cnt[r] |-> r] \o RanksDescFrom(cnt, r - 1)
RanksDesc(cs) == RanksDescFrom([r \in Ranks |-> Cardinality({c \in cs : c[1] = r})], 12)

SameSuit(cs) == \E s \in Suits : \A c \in cs : c[2] = s
ClassOfCards(cs) == <<RanksDesc(cs), SameSuit(cs)>>          \* cs: a set of five cards
ValueOfCards(cs) == Ordinal(ClassOfCards(cs))

(* Predicates of C13, from the rules.                                      *)
IsFlushCards(cs) == SameSuit(cs)
IsStraightCards(cs) == IsStraightT(RanksDesc(cs))
IsWheelCards(cs) == RanksDesc(cs) = Wheel

(* Best five-card hand contained in a set of five to seven cards.          *)
Best(cs) == SetMin({ValueOfCards(S) : S \in kSubset(5, cs)})

(* The same, by the rules and without forming any five-card subset.        *)
TopDesc(S, k) == LET q == SetToSortSeq(S, LAMBDA a, b : a > b) IN SubSeq(q, 1, k)
Runs(S) == {h \in 3..12 : IF h = 3 THEN {12, 0, 1, 2, 3} \subseteq S ELSE (h - 4)..h \subseteq S}
DescOf(q) == SortSeq(q, LAMBDA a, b : a > b)
Direct(cs) ==
    LET n(r) == Cardinality({c \in cs : c[1] = r})
        R(k) == {r \in Ranks : n(r) >= k}
        FS == {s \in Suits : Cardinality({c \in cs : c[2] = s}) >= 5}
        FR == IF FS = {} THEN {} ELSE {c[1] : c \in {d \in cs : d[2] \in FS}}
    IN
    IF FS # {} /\ Runs(FR) # {} THEN <<StraightTuple(SetMax(Runs(FR))), TRUE>>
    ELSE IF R(4) # {} THEN
         LET q == SetMax(R(4)) k == SetMax(R(1) \ {q}) IN <<DescOf(<<q, q, q, q, k>>), FALSE>>
    ELSE IF R(3) # {} /\ (R(2) \ {SetMax(R(3))}) # {} THEN
         LET t == SetMax(R(3)) p == SetMax(R(2) \ {t}) IN <<DescOf(<<t, t, t, p, p>>), FALSE>>
    ELSE IF FS # {} THEN <<TopDesc(FR, 5), TRUE>>
    ELSE IF Runs(R(1)) # {} THEN <<StraightTuple(SetMax(Runs(R(1)))), FALSE>>
    ELSE IF R(3) # {} THEN
         LET t == SetMax(R(3)) k == TopDesc(R(1) \ {t}, 2) IN <<DescOf(<<t, t, t>> \o k), FALSE>>
    ELSE IF Cardinality(R(2)) >= 2 THEN
         LET p == TopDesc(R(2), 2) k == SetMax(R(1) \ {p[1], p[2]})
         IN <<DescOf(<<p[1], p[1], p[2], p[2], k>>), FALSE>>
    ELSE IF R(2) # {} THEN
         LET p == SetMax(R(2)) k == TopDesc(R(1) \ {p}, 3) IN <<DescOf(<<p, p>> \o k), FALSE>>
    ELSE <<TopDesc(R(1), 5), FALSE>>
DirectValue(cs) == Ordinal(Direct(cs))
=============================================================================
