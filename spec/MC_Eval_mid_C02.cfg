SPECIFICATION Spec
CONSTANT DeckName = "mid"
INVARIANT ValueAgree
CHECK_DEADLOCK FALSE
