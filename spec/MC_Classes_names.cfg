SPECIFICATION Spec
CONSTANT Rotations = {0}
CONSTANT Lanes = 64
CONSTANT SVariant = "fixed"
INVARIANT InvBijection
INVARIANT InvNames
CHECK_DEADLOCK FALSE
