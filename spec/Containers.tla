----------------------------- MODULE Containers -----------------------------
(***************************************************************************)
(* The fixed-size containers Two .. Seven: an array of words with per-slot *)
(* setters, sorting, suit shifting, the size-specific uniqueness tests as  *)
(* written, and validity.  The abstract state of a container IS its array. *)
(***************************************************************************)
EXTENDS CkcWords, SequencesExt, TLC

Sizes == 2..7

SetSlot(a, i, w) == [a EXCEPT ![i + 1] = w]              \* i is the 0-based slot
SortDesc(a) == SortSeq(a, LAMBDA x, y : WGt(x, y))        \* sort_unstable then reverse
ShiftHand(a) == [i \in 1..Len(a) |-> ShiftWord(a[i])]
SelectSlots(a, perm) == [k \in 1..Len(perm) |-> a[perm[k] + 1]]

IsNonIncreasing(a) == \A i \in 1..(Len(a) - 1) : WLe(a[i + 1], a[i])
CountOf(a, w) == Cardinality({i \in 1..Len(a) : a[i] = w})
SameMultiset(a, b) == Len(a) = Len(b) /\ \A i \in 1..Len(a) : CountOf(a, a[i]) = CountOf(b, a[i])

(* what C04 says                                                           *)
PairwiseDistinct(a) == \A i, j \in 1..Len(a) : i # j => a[i] # a[j]
ValidSpec(a) == (\A i \in 1..Len(a) : IsCardWord(a[i])) /\ PairwiseDistinct(a)

(* what the code does                                                      *)
ContainBlank(a) == \E i \in 1..Len(a) : a[i] = Blank
IsCorrupt(a) == \E i \in 1..Len(a) : Filter(a[i]) = Blank
TailContains(a, from, w) == \E k \in from..Len(a) : a[k] = w
UniqueAsWritten(a) ==
    CASE Len(a) = 2 -> a[1] # a[2]
      [] Len(a) = 3 -> a[1] # a[2] /\ a[1] # a[3] /\ a[2] # a[3]
      [] Len(a) = 4 -> a[1] # a[2] /\ a[1] # a[3] /\ a[1] # a[4] /\ a[2] # a[3] /\ a[2] # a[4] /\ a[3] # a[4]
      [] Len(a) = 5 -> ~(\E i \in 1..4 : TailContains(a, i + 1, a[i]))          \* windowed contains
      [] OTHER ->                                                          \* six, seven: sort and scan
           LET s == SortDesc(a)
               (* last starts at u32::MAX and `c >= last' fails: a hand that holds 0xFFFFFFFF is     *)
               (* reported not unique even when it is -- named deviation; is_valid is unaffected     *)
               (* because 0xFFFFFFFF is corrupt anyway.                                              *)
               ok(i) == IF i = 1 THEN ~WLe(AllOnes, s[1]) ELSE ~WLe(s[i - 1], s[i])
           IN \A i \in 1..Len(a) : ok(i)
ValidAsWritten(a) == UniqueAsWritten(a) /\ ~IsCorrupt(a)
=============================================================================
