----------------------------- MODULE CactusKev ------------------------------
(***************************************************************************)
(* The evaluator as ckc-rs implements it (implementation-shaped stratum):  *)
(* OR-ed rank bits, AND-ed suit bits, the flush / five-distinct-ranks      *)
(* tables, the prime product, the hand-written binary search with machine  *)
(* arithmetic, the not-found signalling, and the best-of loop of the six-  *)
(* and seven-slot containers with its running minimum and witness.         *)
(*                                                                         *)
(* The four lookup tables are NOT copied from the code: they are derived   *)
(* here from PokerRules (Ordinal), which is what the shipped tables must   *)
(* equal wherever a hand can reach them.                                   *)
(***************************************************************************)
EXTENDS CkcWords, PokerRules

PanicV == -1                     \* "the call unwound"

---------------------------------------------------------------------------
(* Ideal tables.  No CHOOSE below, so TLC caches them.                     *)
POSSIBLE_COMBINATIONS == 7937
BitsOf(i) == {r \in Ranks : (i \div 2^r) % 2 = 1}
TupleOfBits(i) == SetToSortSeq(BitsOf(i), LAMBDA a, b : a > b)

FlushTable == [i \in 0..(POSSIBLE_COMBINATIONS - 1) |->
                 IF Cardinality(BitsOf(i)) = 5 THEN Ordinal(<<TupleOfBits(i), TRUE>>) ELSE 0]
Unique5Table == [i \in 0..(POSSIBLE_COMBINATIONS - 1) |->
                 IF Cardinality(BitsOf(i)) = 5 THEN Ordinal(<<TupleOfBits(i), FALSE>>) ELSE 0]

ProductOfTuple(t) == PrimeOf[t[1] + 1] * PrimeOf[t[2] + 1] * PrimeOf[t[3] + 1] * PrimeOf[t[4] + 1] * PrimeOf[t[5] + 1]
RepeatedTuples == {t \in RankTuples : ~Distinct(t)}
ProductsSorted == SetToSortSeq({<<ProductOfTuple(t), t>> : t \in RepeatedTuples}, LAMBDA a, b : a[1] < b[1])
NProducts == Len(ProductsSorted)                                   \* 4888
ProductsTable == [i \in 1..NProducts |-> ProductsSorted[i][1]]     \* code index = i - 1
ValuesTable   == [i \in 1..NProducts |-> Ordinal(<<ProductsSorted[i][2], FALSE>>)]

---------------------------------------------------------------------------
(* Five::find_in_products as a loop.  One SearchStep is one iteration.     *)
(* variant "fixed" is the repaired code; "original" is the pinned tree's   *)
(* code, kept so that TLC can exhibit its failure.  mode is the arithmetic *)
(* of `mid - 1': "checked" (overflow checks on: panic) or "wrapping"       *)
(* (wraps to usize::MAX, written HUGE: any value that indexes out of       *)
(* range).  Keys at or above 2^31 - 1 are all represented by BIGKEY, which *)
(* is above every table entry; the loop only ever compares the key with    *)
(* table entries, so this loses nothing.                                   *)
HUGE == 1073741824
BIGKEY == 2147483647
SearchInit(key) == [key |-> key, low |-> 0, high |-> NProducts - 1, pc |-> "loop", res |-> 0, iters |-> 0]
SearchStep(st, variant, mode) ==
    IF st.pc # "loop" THEN st
    ELSE IF ~(st.low <= st.high) THEN [st EXCEPT !.pc = "done", !.res = 0]
    ELSE LET mid == (st.high + st.low) \div 2 IN
         IF mid > NProducts - 1 THEN [st EXCEPT !.pc = "panic"]          \* index out of bounds
         ELSE LET product == ProductsTable[mid + 1]
                  s1 == [st EXCEPT !.iters = @ + 1] IN
              IF st.key < product THEN
                   IF mid = 0 THEN
                        IF variant = "fixed" THEN [s1 EXCEPT !.pc = "done", !.res = 0]
                        ELSE IF mode = "checked" THEN [s1 EXCEPT !.pc = "panic"]
                        ELSE [s1 EXCEPT !.high = HUGE]
                   ELSE [s1 EXCEPT !.high = mid - 1]
              ELSE IF st.key > product THEN [s1 EXCEPT !.low = mid + 1]
              ELSE [s1 EXCEPT !.pc = "done", !.res = mid]
RECURSIVE RunSearch(_, _, _)
RunSearch(st, variant, mode) == IF st.pc = "loop" THEN RunSearch(SearchStep(st, variant, mode), variant, mode) ELSE st
FindV(key, variant, mode) == LET f == RunSearch(SearchInit(key), variant, mode) IN IF f.pc = "panic" THEN PanicV ELSE f.res
Find(key) == FindV(key, "fixed", "checked")

(* What the search must compute: the index of the key, 0 when absent.      *)
FindSpec(key) == IF \E i \in 1..NProducts : ProductsTable[i] = key
                 THEN (CHOOSE i \in 1..NProducts : ProductsTable[i] = key) - 1 ELSE 0

---------------------------------------------------------------------------
(* Five-slot evaluation on words, step for step as in Five.                *)
OrBits(h)  == WOr(WOr(WOr(WOr(h[1], h[2]), h[3]), h[4]), h[5])
AndBits(h) == WAnd(WAnd(WAnd(WAnd(h[1], h[2]), h[3]), h[4]), h[5])
OrRankBits(h) == OrBits(h)[1]                      \* or_bits >> 16 (flag bits included, as in the code)
IsFlushW(h) == (AndBits(h)[2] & SUIT_MASK) # 0
MultiplyPrimes(h) == RankPrime(h[1]) * RankPrime(h[2]) * RankPrime(h[3]) * RankPrime(h[4]) * RankPrime(h[5])

PopCount16(n) == Cardinality({k \in 0..15 : (n \div 2^k) % 2 = 1})
TrailingZeros32(n) == IF n = 0 THEN 32 ELSE Cardinality({k \in 0..15 : n % 2^(k + 1) = 0})
BitLength16(n) == Cardinality({k \in 0..15 : 2^k <= n})
LeadingZeros32(n) == 32 - BitLength16(n)
STRAIGHT_PADDING == 27
WHEEL_OR_BITS == 4111                               \* 0b0001000000001111
IsStraightWV(h, variant) ==
    LET rb == OrRankBits(h) IN
    \/ /\ (variant = "original" \/ PopCount16(rb) = 5)
       /\ TrailingZeros32(rb) + LeadingZeros32(rb) = STRAIGHT_PADDING
    \/ rb = WHEEL_OR_BITS
IsStraightW(h) == IsStraightWV(h, "fixed")
IsWheelW(h) == OrRankBits(h) = WHEEL_OR_BITS
IsStraightFlushW(h) == IsStraightW(h) /\ IsFlushW(h)

(* unique(index): the guard is `>' where the array length would call for   *)
(* `>=' -- named deviation, unreachable from card-or-blank hands.          *)
UniqueV(i) == IF i > POSSIBLE_COMBINATIONS THEN 0
              ELSE IF i = POSSIBLE_COMBINATIONS THEN PanicV ELSE Unique5Table[i]
NotUniqueV(h, variant, mode) ==
    LET key == MultiplyPrimes(h)
        idx == FindV(key, variant, mode) IN
    IF idx = PanicV THEN PanicV
    ELSE IF variant = "fixed" /\ ProductsTable[idx + 1] # key THEN 0
    ELSE ValuesTable[idx + 1]
Rank5V(h, variant, mode) ==
    LET i == OrRankBits(h) IN
    IF IsFlushW(h) THEN (IF i > POSSIBLE_COMBINATIONS - 1 THEN PanicV ELSE FlushTable[i])
    ELSE LET u == UniqueV(i) IN
         IF u = PanicV THEN PanicV ELSE IF u = 0 THEN NotUniqueV(h, variant, mode) ELSE u
Rank5W(h) == Rank5V(h, "fixed", "checked")

---------------------------------------------------------------------------
(* Six / seven slots: the best-of loop over the slot-combination table.    *)
(* rows are 0-based slot indexes.                                          *)
SortDescW(h) == SortSeq(h, LAMBDA a, b : WGt(a, b))
Select5(h, row) == [k \in 1..5 |-> h[row[k] + 1]]
BlankFive == <<Blank, Blank, Blank, Blank, Blank>>
BestInit == [i |-> 1, best_hrv |-> 0, best_hand |-> BlankFive, pc |-> "loop"]
BestStep(st, h, rows, variant, mode) ==
    IF st.pc # "loop" THEN st
    ELSE IF st.i > Len(rows) THEN [st EXCEPT !.pc = "done"]
    ELSE LET hand == Select5(h, rows[st.i])
             hrv == Rank5V(hand, variant, mode) IN
         IF hrv = PanicV THEN [st EXCEPT !.pc = "panic"]
         ELSE IF st.best_hrv = 0 \/ (hrv # 0 /\ hrv < st.best_hrv)
              THEN [st EXCEPT !.i = @ + 1, !.best_hrv = hrv, !.best_hand = hand]
              ELSE [st EXCEPT !.i = @ + 1]
RECURSIVE RunBest(_, _, _, _, _)
RunBest(st, h, rows, variant, mode) ==
    IF st.pc = "loop" THEN RunBest(BestStep(st, h, rows, variant, mode), h, rows, variant, mode) ELSE st

(* Result of hand_rank_value_and_hand for 5, 6 or 7 slots:                 *)
(* [value, witness] with value = PanicV when the call unwinds.             *)
RankNV(h, rows, variant, mode) ==
    IF Len(h) = 5 THEN [value |-> Rank5V(h, variant, mode), witness |-> h]
    ELSE LET f == RunBest(BestInit, h, rows, variant, mode) IN
         IF f.pc = "panic" THEN [value |-> PanicV, witness |-> BlankFive]
         ELSE [value |-> f.best_hrv, witness |-> SortDescW(f.best_hand)]
=============================================================================
