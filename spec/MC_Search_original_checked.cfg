SPECIFICATION Spec
CONSTANT Variant = "original"
CONSTANT Mode = "checked"
INVARIANT NoPanic
INVARIANT Bounds
INVARIANT Terminates
INVARIANT Correct
CHECK_DEADLOCK FALSE
