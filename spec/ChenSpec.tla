------------------------------ MODULE ChenSpec ------------------------------
(***************************************************************************)
(* Bill Chen's starting-hand formula, in integer half points so that       *)
(* "round half-up" is exact.  A hand is two card words.                    *)
(***************************************************************************)
EXTENDS CkcWords

Abs(x) == IF x < 0 THEN -x ELSE x
QUEEN_RANK == 10

HighWord(a, b) == WMax(a, b)                               \* high_card: the larger word
IsPocketPair(a, b) == CardRankOf(a) = CardRankOf(b)
IsSuited(a, b) == CardSuitOf(a) = CardSuitOf(b)
Gap(a, b) == LET d == Abs(CardRankOf(a) - CardRankOf(b)) IN IF d < 1 THEN 0 ELSE d - 1
IsConnector(a, b) == Gap(a, b) = 0            \* the code's definition: a pocket pair is a "connector" too
IsSuitedConnector(a, b) == IsSuited(a, b) /\ IsConnector(a, b)

GapPenalty2(g) == CASE g = 0 -> 0 [] g = 1 -> 2 [] g = 2 -> 4 [] g = 3 -> 8 [] OTHER -> 10

(* The formula by ranks and suitedness only.                               *)
ChenHalf(r1, r2, suited) ==
    LET hr == IF r1 > r2 THEN r1 ELSE r2
        base == ChenHalfPointsOfRank(hr)
        g == IF r1 = r2 THEN 0 ELSE Abs(r1 - r2) - 1
        core == IF r1 = r2 THEN (IF 2 * base > 10 THEN 2 * base ELSE 10)
                ELSE base - GapPenalty2(g) + (IF g < 2 /\ hr < QUEEN_RANK THEN 2 ELSE 0)
    IN core + (IF suited THEN 4 ELSE 0)
RoundHalfUp(h2) == (h2 + 1) \div 2                        \* floor(h2 / 2 + 1/2)
ChenScoreRanks(r1, r2, suited) == RoundHalfUp(ChenHalf(r1, r2, suited))
ChenScore(a, b) == ChenScoreRanks(CardRankOf(a), CardRankOf(b), IsSuited(a, b))

ChenJson == [ k \in 1..338 |->
    LET q == k - 1 r1 == q \div 26 r2 == (q % 26) \div 2 su == (q % 2) = 1 IN
    [ r1 |-> r1, r2 |-> r2, suited |-> su, score |-> ChenScoreRanks(r1, r2, su),
      gap |-> IF r1 = r2 THEN 0 ELSE Abs(r1 - r2) - 1 ] ]
=============================================================================
