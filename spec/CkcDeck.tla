------------------------------ MODULE CkcDeck -------------------------------
(***************************************************************************)
(* The deck, the 64-bit card-set positions, slot-combination tables and    *)
(* the preset two-card tables, all defined from their descriptions.        *)
(***************************************************************************)
EXTENDS CkcWords, SequencesExt, FiniteSetsExt

DeckSize == 52

(* Deck position i (0-based): spades, hearts, diamonds, clubs; each from   *)
(* the ace down to the deuce.                                              *)
DeckRank(i) == 12 - (i % 13)
DeckSuit(i) == 3 - (i \div 13)
DeckWord(i) == WordOf(DeckRank(i), DeckSuit(i))
Deck == [i \in 1..DeckSize |-> DeckWord(i - 1)]          \* 1-based sequence
DeckIndexOf(r, s) == (3 - s) * 13 + (12 - r)             \* 0-based

(* Deck::get(index): blank at or past the end, for every index.            *)
DeckGet(i) == IF i < DeckSize THEN DeckWord(i) ELSE Blank

(* 64-bit card sets: bit 51 is the first deck card, bit 0 the last.        *)
BitOfDeckIndex(i) == 51 - i
BitOfCard(r, s)   == BitOfDeckIndex(DeckIndexOf(r, s))

(* A u64 is the sequence of its four 16-bit limbs, most significant first. *)
Limbs == [1..4 -> Half]
ZeroLimbs == <<0, 0, 0, 0>>
LimbsOfBit(b) == [k \in 1..4 |-> IF 4 - (b \div 16) = k THEN 2^(b % 16) ELSE 0]
LOr(a, b)  == [k \in 1..4 |-> a[k] | b[k]]
LAnd(a, b) == [k \in 1..4 |-> a[k] & b[k]]
LXor(a, b) == [k \in 1..4 |-> a[k] ^^ b[k]]
BitSetOfLimbs(x) == {b \in 0..63 : (x[4 - (b \div 16)] \div 2^(b % 16)) % 2 = 1}
RECURSIVE LimbsOfBitSet(_)
LimbsOfBitSet(S) == IF S = {} THEN ZeroLimbs
                    ELSE LET b == CHOOSE x \in S : TRUE
                         IN LOr(LimbsOfBit(b), LimbsOfBitSet(S \ {b}))

---------------------------------------------------------------------------
(* k-subsets of 0..n-1 as increasing sequences, listed lexicographically.  *)
RECURSIVE CombFrom(_, _, _)
CombFrom(lo, n, k) ==
    IF k = 0 THEN << <<>> >>
    ELSE IF lo > n - k THEN <<>>
    ELSE LET sub == CombFrom(lo + 1, n, k - 1) IN
         [i \in 1..Len(sub) |-> <<lo>> \o sub[i]] \o CombFrom(lo + 1, n, k)
Comb(n, k) == CombFrom(0, n, k)
Comb42 == Comb(4, 2)
Comb65 == Comb(6, 5)
Comb75 == Comb(7, 5)

IsIncreasing(row) == \A i \in 1..(Len(row) - 1) : row[i] < row[i + 1]
SeqLexLt(a, b) == \E i \in 1..Len(a) : a[i] < b[i] /\ \A j \in 1..(i - 1) : a[j] = b[j]

(* What C18 says about a published slot-index table.                       *)
IsCombTable(t, n, k) ==
    /\ \A i \in 1..Len(t) : Len(t[i]) = k /\ IsIncreasing(t[i]) /\ \A j \in 1..k : t[i][j] \in 0..(n - 1)
    /\ \A i \in 1..(Len(t) - 1) : SeqLexLt(t[i], t[i + 1])
    /\ {t[i] : i \in 1..Len(t)} = {r \in UNION {[1..k -> 0..(n - 1)]} : IsIncreasing(r)}

---------------------------------------------------------------------------
(* Preset two-card tables as sets of <<higher word, lower word>>.          *)
PairsOfRanks(rhi, rlo, P(_, _)) ==
    {<<WordOf(rhi, s1), WordOf(rlo, s2)>> : <<s1, s2>> \in {p \in Suits \X Suits : P(p[1], p[2])}}

ACE == 12
KING == 11
QUEEN == 10
PresetAA  == {<<WordOf(ACE, p[1]), WordOf(ACE, p[2])>> : p \in {q \in Suits \X Suits : q[1] > q[2]}}
PresetAK  == PairsOfRanks(ACE, KING, LAMBDA a, b : TRUE)
PresetAKs == PairsOfRanks(ACE, KING, LAMBDA a, b : a = b)
PresetAKo == PairsOfRanks(ACE, KING, LAMBDA a, b : a # b)
PresetAQs == PairsOfRanks(ACE, QUEEN, LAMBDA a, b : a = b)
PresetAQo == PairsOfRanks(ACE, QUEEN, LAMBDA a, b : a # b)
Preset(name) == CASE name = "AA"  -> PresetAA
                  [] name = "AK"  -> PresetAK
                  [] name = "AKs" -> PresetAKs
                  [] name = "AKo" -> PresetAKo
                  [] name = "AQs" -> PresetAQs
                  [] name = "AQo" -> PresetAQo
=============================================================================
