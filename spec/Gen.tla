-------------------------------- MODULE Gen ---------------------------------
(***************************************************************************)
(* Specification -> implementation: TLC evaluates the specification and    *)
(* writes the expected behaviour of the pure calls as JSON oracle tables   *)
(* into $GEN_DIR.  The Rust replay harness judges the real code only by    *)
(* these files (it contains no poker knowledge of its own).                *)
(***************************************************************************)
EXTENDS CactusKev, HandRankSpec, CkcDeck, ChenSpec, ParseSpec, BitSets, Json, IOUtils

Dir == IOEnv.GEN_DIR

CardRec(i) ==
    LET r == DeckRank(i) s == DeckSuit(i) w == DeckWord(i) IN
    [ i |-> i, rank |-> r, suit |-> s, w |-> w, bit |-> BitOfDeckIndex(i),
      rank_name |-> RankName(r), suit_name |-> SuitName(s),
      prime |-> RankPrime(w), rank_bit |-> RankBit(w), suit_bit |-> SuitBit(w),
      rank_char |-> RankCharOf(w), suit_char |-> SuitCharOf(w), suit_letter |-> SuitLetterOf(w),
      chen2 |-> ChenHalfPoints(w), shift |-> ShiftCardSpec(w), next_suit |-> SuitName(NextSuit(w)) ]
CardsJson == [k \in 1..52 |-> CardRec(k - 1)]

ClassRec(v) ==
    LET c == ClassAt(v) IN
    [ ranks |-> c[1], flush |-> c[2], ordinal |-> v, category |-> CategoryName(Category(c)), class |-> ClassName(c) ]
ClassesJson == [v \in 1..NClasses |-> ClassRec(v)]

TablesJson == [ flushes  |-> [k \in 1..POSSIBLE_COMBINATIONS |-> FlushTable[k - 1]],
                unique5  |-> [k \in 1..POSSIBLE_COMBINATIONS |-> Unique5Table[k - 1]],
                products |-> ProductsTable, values |-> ValuesTable ]

StartSeq == SetToSortSeq(ClassStarts, <)
RangeRec(k) == LET lo == StartSeq[k]
                   hi == IF k = Len(StartSeq) THEN NClasses ELSE StartSeq[k + 1] - 1 IN
               [ lo |-> lo, hi |-> hi, class |-> ClassOfValue(lo), category |-> NameOfValue(lo), pos |-> k ]
HandRankJson == [ n |-> NClasses,
                  ranges |-> [k \in 1..Len(StartSeq) |-> RangeRec(k)],
                  categories |-> CategoryNames \o <<Invalid>> ]

CombosJson == [ omaha |-> Comb(4, 2), six |-> Comb(6, 5), seven |-> Comb(7, 5),
                presets |-> [ n \in {"AA", "AK", "AKs", "AKo", "AQs", "AQo"} |-> SetToSeq(Preset(n)) ] ]

LayoutJson == [ pair |-> <<PAIR_HI, 0>>, trips |-> <<TRIPS_HI, 0>>, quads |-> <<QUADS_HI, 0>>,
                strip_mask |-> <<RANK_FLAG_HI, 65535>>, all |-> AllLimbs, overflow |-> OverflowLimbs ]

ASSUME BitSetOfLimbs(AllLimbs) = CardBits /\ BitSetOfLimbs(OverflowLimbs) = OverflowBitsSet
ASSUME JsonSerialize(Dir \o "/layout.json", LayoutJson)
ASSUME JsonSerialize(Dir \o "/cards.json", CardsJson)
ASSUME JsonSerialize(Dir \o "/classes.json", ClassesJson)
ASSUME JsonSerialize(Dir \o "/tables.json", TablesJson)
ASSUME JsonSerialize(Dir \o "/handrank.json", HandRankJson)
ASSUME JsonSerialize(Dir \o "/combos.json", CombosJson)
ASSUME JsonSerialize(Dir \o "/chen.json", ChenJson)
ASSUME JsonSerialize(Dir \o "/symbols.json", SymbolsJson)

VARIABLE x
Init == x = 0
Next == x' = x
=============================================================================
