------------------------------ MODULE MC_Chen -------------------------------
(***************************************************************************)
(* C17: the Chen score over all ordered pairs of distinct cards.  Steps    *)
(* swap the two cards or shift their suits.  ChenAsWritten transcribes the *)
(* code (points of the higher word, gap of the sorted pair by enumeration  *)
(* values, ceil); ChenScore is the formula of the statement.               *)
(***************************************************************************)
EXTENDS ChenSpec

VARIABLES s_a, s_b
vars == <<s_a, s_b>>
Init == s_a \in CardWords /\ s_b \in CardWords /\ s_a # s_b
Swap == s_a' = s_b /\ s_b' = s_a
ShiftBoth == s_a' = ShiftWord(s_a) /\ s_b' = ShiftWord(s_b)
Next == Swap \/ ShiftBoth
Spec == Init /\ [][Next]_vars

EnumValue(w) == CardRankOf(w) + 2                       \* ACE = 14 ... TWO = 2
ChenAsWritten(a, b) ==
    LET hc == HighWord(a, b)
        p0 == ChenHalfPoints(hc)
        sf == WMax(a, b) sl == IF WLt(a, b) THEN a ELSE b
        d == EnumValue(sf) - EnumValue(sl)
        gap == IF d < 1 THEN 0 ELSE d - 1
        p1 == IF IsPocketPair(a, b) THEN (IF p0 * 2 > 10 THEN p0 * 2 ELSE 10)
              ELSE p0 - GapPenalty2(gap) + (IF gap < 2 /\ EnumValue(hc) < 12 THEN 2 ELSE 0)
        p2 == p1 + (IF IsSuited(a, b) THEN 4 ELSE 0)
    IN (p2 + 1) \div 2                                   \* ceil of a multiple of one half
Refines == ChenAsWritten(s_a, s_b) = ChenScore(s_a, s_b)
Symmetric == ChenScore(s_a, s_b) = ChenScore(s_b, s_a)
ShiftInvariant == ChenScore(ShiftWord(s_a), ShiftWord(s_b)) = ChenScore(s_a, s_b)
OnlyRanksAndSuitedness ==
    ChenScore(s_a, s_b) = ChenScoreRanks(RankOfCard(s_a), RankOfCard(s_b), SuitOfCard(s_a) = SuitOfCard(s_b))
Helpers == /\ IsPocketPair(s_a, s_b) = (RankOfCard(s_a) = RankOfCard(s_b))
           /\ IsSuited(s_a, s_b) = (SuitOfCard(s_a) = SuitOfCard(s_b))
           /\ Gap(s_a, s_b) = Cardinality({r \in Ranks : (r > RankOfCard(s_a) /\ r < RankOfCard(s_b)) \/ (r > RankOfCard(s_b) /\ r < RankOfCard(s_a))})
           /\ HighWord(s_a, s_b) \in {s_a, s_b} /\ WLe(s_a, HighWord(s_a, s_b)) /\ WLe(s_b, HighWord(s_a, s_b))
(* published values of the formula *)
ASSUME ChenScoreRanks(12, 12, FALSE) = 20 /\ ChenScoreRanks(12, 11, TRUE) = 12 /\ ChenScoreRanks(8, 8, FALSE) = 10
ASSUME ChenScoreRanks(5, 3, TRUE) = 6 /\ ChenScoreRanks(5, 0, FALSE) = -1 /\ ChenScoreRanks(0, 0, FALSE) = 5
ASSUME ChenScoreRanks(9, 8, TRUE) = 9 /\ ChenScoreRanks(12, 10, FALSE) = 9 /\ ChenScoreRanks(11, 6, FALSE) = 3
=============================================================================
