SPECIFICATION Spec
INVARIANT Layout
INVARIANT Order
INVARIANT Flags
INVARIANT Shift
INVARIANT Positions
CHECK_DEADLOCK FALSE
