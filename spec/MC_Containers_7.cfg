SPECIFICATION Spec
CONSTANT N = 7
CONSTANT Small = TRUE
INVARIANT Agree
INVARIANT ValidityAgrees
INVARIANT UniqueDeviation
INVARIANT SortLaws
INVARIANT ShiftSlotwise
PROPERTY SetTouchesOneSlot
CHECK_DEADLOCK FALSE
