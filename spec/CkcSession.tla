----------------------------- MODULE CkcSession -----------------------------
(***************************************************************************)
(* The composed next-state relation of a ckc-rs "session": one action per  *)
(* public call on a small set of live objects -- a container, a card set,  *)
(* a table of dealt cards and a pair of hand ranks.  TLC generates         *)
(* behaviours of this machine (simulation mode); every step carries the    *)
(* state the specification expects after the call, and the harness replays *)
(* the steps into the real code and compares after each one               *)
(* (specification -> implementation, stateful part).                       *)
(*                                                                         *)
(* s_hist is a history variable: it only records, it never guards.         *)
(***************************************************************************)
EXTENDS CactusKev, HandRankSpec, CkcDeck, ChenSpec, ParseSpec, BitSets, Containers, Json

CONSTANTS MaxSteps, Seeds

AceS == WordOf(12, 3)
Alphabet == {Blank, AceS, WordOf(11, 1), WordOf(0, 0), WordOf(3, 2), FlagPair(WordOf(11, 1)), AllOnes, <<0, 23>>, <<4096, 0>>}
SomeCards == {WordOf(p[1], p[2]) : p \in ({12, 11, 3, 2, 1, 0} \X Suits)}
SomeBits == {0, 1, 12, 13, 25, 26, 38, 39, 50, 51, 52, 63}

VARIABLES s_cont,    \* the live container: a sequence of 2..7 words
          s_set,     \* the live card set: four limbs
          s_table,   \* dealt cards: a sequence of 0..7 distinct card words
          s_hist,    \* the steps taken so far, each with the expected observation
          s_done,    \* the behaviour is complete (exactly one successor: it is emitted once)
          s_rnd      \* a small linear congruential generator that picks the data of each call
vars == <<s_cont, s_set, s_table, s_hist, s_done, s_rnd>>

Step(op, args, expect) == s_hist' = Append(s_hist, [op |-> op, args |-> args, expect |-> expect])

Init == /\ s_cont = <<Blank, Blank>> /\ s_set = ZeroLimbs /\ s_table = <<>> /\ s_hist = <<>> /\ s_done = FALSE /\ s_rnd \in 1..Seeds

---------------------------------------------------------------------------
(* containers *)
(* The data of a call are a function of s_rnd (RandomElement would be re-drawn at every use of *)
(* a LET name), so every action has one successor and TLC's uniform choice among successors is *)
(* a uniform choice among the kinds of call.                                                   *)
Words == Alphabet \cup SomeCards
WordSeq == SetToSeq(Words)
CardSeq == SetToSeq(SomeCards)
BitSeq == SetToSeq(SomeBits)
Rnd(k) == (s_rnd * (2 * k + 1) + 7 * k) % 65521        \* k-th draw of this step
PickFrom(q, k) == q[(Rnd(k) % Len(q)) + 1]
NextRnd == s_rnd' = (s_rnd * 75 + 74) % 65537
NewContainer ==
    LET n == 2 + (Rnd(0) % 6)
        \* every third container starts with blanks in its leading slots (a constructor that trims or
        \* compacts shows there); `parts` asks the replay for the from-parts constructor of that size
        lead == IF Rnd(9) % 3 = 0 THEN 1 + (Rnd(10) % 2) ELSE 0
        a == [i \in 1..n |-> IF i <= lead THEN Blank ELSE PickFrom(WordSeq, i)] IN
    /\ s_cont' = a /\ Step("c_from", [words |-> a, parts |-> Rnd(8) % 2], [post |-> a])
    /\ UNCHANGED <<s_set, s_table>>
SetSlotA ==
    LET i == Rnd(0) % Len(s_cont)
        w == PickFrom(WordSeq, 1)
        a == SetSlot(s_cont, i, w) IN
    /\ s_cont' = a /\ Step("c_set", [slot |-> i, w |-> w], [post |-> a])
    /\ UNCHANGED <<s_set, s_table>>
SortA == LET a == SortDesc(s_cont) IN
    /\ s_cont' = a /\ Step("c_sort", [x |-> 0], [post |-> a]) /\ UNCHANGED <<s_set, s_table>>
ShiftA == /\ \A i \in 1..Len(s_cont) : IsCardWord(s_cont[i]) \/ s_cont[i] = Blank
          /\ LET a == ShiftHand(s_cont) IN
             s_cont' = a /\ Step("c_shift", [x |-> 0], [post |-> a]) /\ UNCHANGED <<s_set, s_table>>
ValidA == /\ Step("c_valid", [x |-> 0], [valid |-> ValidSpec(s_cont), blank |-> ContainBlank(s_cont)])
          /\ UNCHANGED <<s_cont, s_set, s_table>>
ToSetA == LET x == FromHand(s_cont) IN
          /\ s_set' = x /\ Step("c_to_set", [x |-> 0], [post |-> x]) /\ UNCHANGED <<s_cont, s_table>>

MarkNames == <<"pair", "trips", "quads">>
MarkSlotA ==
    LET i == Rnd(0) % Len(s_cont)
        m == PickFrom(MarkNames, 1)
        a == SetSlot(s_cont, i, Mark(s_cont[i + 1], m)) IN
    /\ s_cont' = a /\ Step("c_mark", [slot |-> i, mark |-> m], [post |-> a])
    /\ UNCHANGED <<s_set, s_table>>
Select5A ==
    /\ Len(s_cont) >= 6
    /\ LET perm == [k \in 1..5 |-> Rnd(k) % Len(s_cont)] IN
       Step("c_select5", [perm |-> perm], [res |-> SelectSlots(s_cont, perm)])
    /\ UNCHANGED <<s_cont, s_set, s_table>>
(* the public product-search helper, with keys related to the live objects *)
FindA ==
    LET key == CASE Rnd(0) % 4 = 0 -> 0
                 [] Rnd(0) % 4 = 1 -> ProductsTable[(Rnd(1) % NProducts) + 1]
                 [] Rnd(0) % 4 = 2 -> IF Len(s_cont) = 5 THEN MultiplyPrimes(s_cont) ELSE 47
                 [] OTHER -> Rnd(1) IN
    /\ Step("x_find", [key |-> key], [index |-> Find(key)])
    /\ UNCHANGED <<s_cont, s_set, s_table>>

(* card sets *)
FoldA == LET b == PickFrom(BitSeq, 0) x == FoldIn(s_set, LimbsOfBit(b)) IN
    /\ s_set' = x /\ Step("s_fold", [arg |-> LimbsOfBit(b)], [post |-> x]) /\ UNCHANGED <<s_cont, s_table>>
PeelA == LET p == Peel(s_set) IN
    /\ s_set' = p.rest /\ Step("s_peel", [x |-> 0], [card |-> p.card, post |-> p.rest, word |-> ToCkc(p.card)])
    /\ UNCHANGED <<s_cont, s_table>>
InfoA == /\ Step("s_info", [x |-> 0], [count |-> Count(s_set), valid |-> IsValidSet(s_set), single |-> IsSingle(s_set)])
         /\ UNCHANGED <<s_cont, s_set, s_table>>
HasA == LET S == {SetMin(SomeBits), PickFrom(BitSeq, 0), PickFrom(BitSeq, 1)}
            arg == LimbsOfBitSet(IF Rnd(2) % 2 = 0 THEN {PickFrom(BitSeq, 0)} ELSE S) IN
        /\ Step("s_has", [arg |-> arg], [res |-> Has(s_set, arg)])
        /\ UNCHANGED <<s_cont, s_set, s_table>>
TwoA == LET r == TwoFromBitsSpec(s_set) IN
        /\ Step("s_two", [x |-> 0], [kind |-> r.kind, cards |-> r.cards])
        /\ (r.kind = "ok" => s_cont' = r.cards) /\ (r.kind # "ok" => UNCHANGED s_cont)
        /\ UNCHANGED <<s_set, s_table>>

(* dealing and ranking *)
TableCards == {<<CardRankOf(s_table[i]), CardSuitOf(s_table[i])>> : i \in 1..Len(s_table)}
DealA == /\ Len(s_table) < 7
         /\ LET free == SelectSeq(CardSeq, LAMBDA x : \A i \in 1..Len(s_table) : s_table[i] # x)
                w == PickFrom(free, 0) IN
              /\ LET t == Append(s_table, w)
                     cs == TableCards \cup {<<CardRankOf(w), CardSuitOf(w)>>}
                     v == IF Len(t) >= 5 THEN Best(cs) ELSE 0 IN
                 /\ s_table' = t
                 /\ Step("t_deal", [w |-> w], [n |-> Len(t), value |-> v,
                                               name |-> NameOfValue(v), class |-> ClassOfValue(v)])
         /\ UNCHANGED <<s_cont, s_set>>
ClearA == /\ Len(s_table) = 7 /\ s_table' = <<>> /\ Step("t_clear", [x |-> 0], [n |-> 0]) /\ UNCHANGED <<s_cont, s_set>>
ChenA == /\ Len(s_table) >= 2
         /\ LET a == s_table[1] b == s_table[2] IN
            Step("t_chen", [x |-> 0], [score |-> ChenScore(a, b), gap |-> Gap(a, b), high |-> HighWord(a, b)])
         /\ UNCHANGED <<s_cont, s_set, s_table>>
TableToContainerA == /\ Len(s_table) \in Sizes
                     /\ s_cont' = s_table /\ Step("t_to_cont", [x |-> 0], [post |-> s_table])
                     /\ UNCHANGED <<s_set, s_table>>
(* render the table as text (letters or glyphs, a drawn separator) and parse it back into the container *)
Separators == <<32, 9, 160, 10>>
RECURSIVE RenderFrom(_, _, _, _)
RenderFrom(t, i, sep, glyph) ==
    IF i > Len(t) THEN <<>>
    ELSE (IF i > 1 THEN <<sep>> ELSE <<>>)
         \o (IF (glyph + i) % 2 = 0 THEN RenderGlyph(CardRankOf(t[i]), CardSuitOf(t[i])) ELSE RenderLetter(CardRankOf(t[i]), CardSuitOf(t[i])))
         \o RenderFrom(t, i + 1, sep, glyph)
ParseTableA ==
    /\ Len(s_table) \in Sizes
    /\ LET text == RenderFrom(s_table, 1, PickFrom(Separators, 0), Rnd(1) % 2)
           r == ParseHand(Len(s_table), text) IN
       /\ Assert(r.kind = "ok" /\ r.words = s_table, <<"SPEC ERROR: render / parse round trip", s_table>>)
       /\ s_cont' = s_table
       /\ Step("t_parse", [n |-> Len(s_table), s |-> text], [post |-> s_table])
    /\ UNCHANGED <<s_set, s_table>>
(* compare two hand ranks converted from drawn values *)
CmpValues == <<0, 1, 10, 11, 166, 167, 1599, 1600, 3325, 3326, 7461, 7462, 7463, 32768, 65535>>
CompareA ==
    LET a == PickFrom(CmpValues, 0) b == PickFrom(CmpValues, 1)
        bothInvalid == IsInvalid(R(a)) /\ IsInvalid(R(b)) IN
    /\ Step("x_cmp", [a |-> a, b |-> b], [cmp |-> IF bothInvalid /\ a # b THEN "NotEqual" ELSE Cmp(R(a), R(b))])
    /\ UNCHANGED <<s_cont, s_set, s_table>>
RankContainerA ==
    /\ Len(s_cont) >= 5
    /\ \A i \in 1..Len(s_cont) : IsCardWord(s_cont[i]) \/ s_cont[i] = Blank
    /\ LET m == RankNV(s_cont, IF Len(s_cont) = 6 THEN Comb65 ELSE Comb75, "fixed", "checked")
           strict == ValidSpec(s_cont) IN
       Step("c_rank", [x |-> 0], [value |-> m.value, strict |-> strict,
                                  validated |-> IF strict THEN m.value ELSE 0])
    /\ UNCHANGED <<s_cont, s_set, s_table>>

Finish == /\ Len(s_hist) = MaxSteps /\ ~s_done /\ s_done' = TRUE /\ UNCHANGED <<s_cont, s_set, s_table, s_hist, s_rnd>>
Next == \/ Finish
        \/ /\ Len(s_hist) < MaxSteps /\ UNCHANGED s_done /\ NextRnd
           /\ \/ NewContainer \/ SetSlotA \/ SortA \/ ShiftA \/ ValidA \/ ToSetA \/ MarkSlotA \/ Select5A \/ FindA
              \/ FoldA \/ PeelA \/ InfoA \/ TwoA \/ HasA
              \/ DealA \/ ClearA \/ ChenA \/ TableToContainerA \/ RankContainerA \/ ParseTableA \/ CompareA
Spec == Init /\ [][Next]_vars

---------------------------------------------------------------------------
(* Invariants of the session (checked on every generated behaviour).       *)
TypeOk == /\ Len(s_cont) \in Sizes /\ Len(s_table) <= 7
          /\ \A i, j \in 1..Len(s_table) : i # j => s_table[i] # s_table[j]
DealMonotone == [][(Len(s_table) >= 5 /\ Len(s_table') = Len(s_table) + 1) =>
                     Best(TableCards') <= Best(TableCards)]_vars
SetContainerLink == [][(s_hist' # s_hist /\ s_hist'[Len(s_hist')].op = "c_to_set") =>
                         BitSetOfLimbs(s_set') = FromHandSpec(s_cont)]_vars

(* Emit each finished behaviour once, as one JSON line.                    *)
Emit == ~s_done \/ PrintT(<<"REPLAY", ToJson(s_hist)>>)
=============================================================================
