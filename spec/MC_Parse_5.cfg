SPECIFICATION Spec
CONSTANT MaxLen = 5
INVARIANT TokenRule
INVARIANT SplitRule
INVARIANT HandRule
INVARIANT SetRule
CHECK_DEADLOCK FALSE
