SPECIFICATION Spec
CONSTANT N = 6
CONSTANT Small = FALSE
INVARIANT Agree
INVARIANT ValidityAgrees
INVARIANT UniqueDeviation
INVARIANT SortLaws
INVARIANT ShiftSlotwise
PROPERTY SetTouchesOneSlot
CHECK_DEADLOCK FALSE
