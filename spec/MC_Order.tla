------------------------------ MODULE MC_Order ------------------------------
(***************************************************************************)
(* C07: the comparison of hand ranks, transcribed branch by branch, is a   *)
(* total order consistent with equality.  States are triples of values     *)
(* from a boundary-complete set; a step changes one component.             *)
(***************************************************************************)
EXTENDS HandRankSpec

CONSTANT Variant
V == {0, 1, 2, 10, 11, 166, 167, 322, 323, 1599, 1600, 1609, 1610, 3325, 3326, 6185, 6186,
      7461, 7462, 7463, 7464, 32768, 65534, 65535}

VARIABLES s_a, s_b, s_c
vars == <<s_a, s_b, s_c>>
Init == s_a = 0 /\ s_b = 0 /\ s_c = 0
Next == \/ s_a' \in V /\ UNCHANGED <<s_b, s_c>>
        \/ s_b' \in V /\ UNCHANGED <<s_a, s_c>>
        \/ s_c' \in V /\ UNCHANGED <<s_a, s_b>>
Spec == Init /\ [][Next]_vars

C(x, y) == CmpV(R(x), R(y), Variant)
(* the plain-value comparison that proofs/OrderProof.tla proves to be a total order for all naturals *)
OD == INSTANCE OrderDefs WITH N <- NClasses
SameAsProved == Variant = "fixed" => (OD!Cmp(s_a, s_b) = C(s_a, s_b) /\ (OD!Key(s_a) < OD!Key(s_b)) = (C(s_a, s_b) = "Less"))
ASSUME \A x, y \in (0..40) \cup (7440..7500) : OD!Cmp(x, y) = CmpV(R(x), R(y), "fixed")
Reflexive == C(s_a, s_a) = "Equal"
Antisymmetric == C(s_a, s_b) = Flip(C(s_b, s_a))
EqualIffEq == (C(s_a, s_b) = "Equal") <=> (R(s_a) = R(s_b))
Transitive == (C(s_a, s_b) # "Greater" /\ C(s_b, s_c) # "Greater") => C(s_a, s_c) # "Greater"
InvalidLowest == (IsInvalid(R(s_a)) /\ ~IsInvalid(R(s_b))) => C(s_a, s_b) = "Less"
StrongerGreater == (~IsInvalid(R(s_a)) /\ ~IsInvalid(R(s_b)) /\ s_a < s_b) => C(s_a, s_b) = "Greater"
Consistent == IsConsistent(R(s_a))
=============================================================================
