---------------------------- MODULE HandRankSpec -----------------------------
(***************************************************************************)
(* HandRank: conversion from a 16-bit value, the hand-written comparison   *)
(* (transcribed branch by branch) and the order of the two enumerations.   *)
(***************************************************************************)
EXTENDS PokerRules

Values16 == 0..65535
Invalid == "Invalid"

IsRealValue(v) == v \in 1..NClasses
NameOfValue(v)  == IF IsRealValue(v) THEN CategoryName(Category(ClassAt(v))) ELSE Invalid
ClassOfValue(v) == IF IsRealValue(v) THEN ClassName(ClassAt(v)) ELSE Invalid
FromValue(v) == [value |-> v, name |-> NameOfValue(v), class |-> ClassOfValue(v)]
IsInvalid(hr) == hr.name = Invalid
IsConsistent(hr) == hr = FromValue(hr.value)            \* is_a_valid_hand_rank

(* Ord::cmp.  variant "fixed": two invalid ranks are ordered by value      *)
(* (reversed, like valid ones); "original": they compare Equal.            *)
CmpV(a, b, variant) ==
    IF IsInvalid(a) /\ IsInvalid(b) THEN
         IF variant = "original" THEN "Equal"
         ELSE IF b.value < a.value THEN "Less" ELSE IF b.value > a.value THEN "Greater" ELSE "Equal"
    ELSE IF IsInvalid(a) THEN "Less"
    ELSE IF IsInvalid(b) THEN "Greater"
    ELSE IF a.value < b.value THEN "Greater"
    ELSE IF a.value > b.value THEN "Less"
    ELSE "Equal"
Cmp(a, b) == CmpV(a, b, "fixed")
Flip(o) == IF o = "Less" THEN "Greater" ELSE IF o = "Greater" THEN "Less" ELSE "Equal"

(* What C07 states, as predicates over a set V of values.                  *)
R(v) == FromValue(v)
OrderLaws(V, variant) ==
    /\ \A a \in V : CmpV(R(a), R(a), variant) = "Equal"
    /\ \A a, b \in V : CmpV(R(a), R(b), variant) = Flip(CmpV(R(b), R(a), variant))
    /\ \A a, b \in V : (CmpV(R(a), R(b), variant) = "Equal") <=> (R(a) = R(b))
    /\ \A a, b, c \in V : (CmpV(R(a), R(b), variant) # "Greater" /\ CmpV(R(b), R(c), variant) # "Greater")
                            => CmpV(R(a), R(c), variant) # "Greater"
    /\ \A a, b \in V : (IsInvalid(R(a)) /\ ~IsInvalid(R(b))) => CmpV(R(a), R(b), variant) = "Less"
    /\ \A a, b \in V : (~IsInvalid(R(a)) /\ ~IsInvalid(R(b)) /\ a < b) => CmpV(R(a), R(b), variant) = "Greater"

(* Contiguous ranges: every class name / category labels one run of values. *)
RangeStarts(F(_)) == {v \in 1..NClasses : v = 1 \/ F(v) # F(v - 1)}
ClassStarts == RangeStarts(ClassOfValue)
NameStarts  == RangeStarts(NameOfValue)
(* Enumeration positions "in step with the value": the k-th distinct label *)
(* met when walking the values 1, 2, ... has position k; Invalid is last.  *)
ClassPos(v) == IF IsRealValue(v) THEN Cardinality({s \in ClassStarts : s <= v}) ELSE Cardinality(ClassStarts) + 1
NamePos(v)  == IF IsRealValue(v) THEN Cardinality({s \in NameStarts : s <= v}) ELSE Cardinality(NameStarts) + 1
=============================================================================
