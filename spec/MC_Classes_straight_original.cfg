SPECIFICATION Spec
CONSTANT Rotations = {0}
CONSTANT Lanes = 64
CONSTANT SVariant = "original"
INVARIANT InvPredicates
CHECK_DEADLOCK FALSE
