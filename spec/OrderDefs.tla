----------------------------- MODULE OrderDefs ------------------------------
(* The comparison of hand ranks on plain values, shared by the TLAPS proof  *)
(* (proofs/OrderProof.tla: total order for ALL naturals) and by MC_Order,   *)
(* which checks that it is the same function as HandRankSpec!CmpV "fixed".  *)
EXTENDS Integers
CONSTANT N                      \* the number of classes (7462)

IsInv(v) == v = 0 \/ v > N
Cmp(a, b) ==
    IF IsInv(a) /\ IsInv(b) THEN
         (IF b < a THEN "Less" ELSE IF b > a THEN "Greater" ELSE "Equal")
    ELSE IF IsInv(a) THEN "Less"
    ELSE IF IsInv(b) THEN "Greater"
    ELSE IF a < b THEN "Greater"
    ELSE IF a > b THEN "Less"
    ELSE "Equal"
Key(v) == IF IsInv(v) THEN 0 - v - (N + 1) ELSE 0 - v
=============================================================================
