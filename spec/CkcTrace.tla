------------------------------ MODULE CkcTrace ------------------------------
(***************************************************************************)
(* Implementation -> specification.  The harness records one JSON object   *)
(* per real call (arguments and observed results, words as [hi, lo]); this *)
(* module replays the recorded calls through the specification's own       *)
(* operators.  One action per event kind; an event is consumed only if the *)
(* specification explains every strict field of it.  Acceptance: all       *)
(* events consumed (POSTCONDITION).  Which fields are strict depends only  *)
(* on the class of the input (five distinct cards / card-or-blank / any    *)
(* words), exactly as the properties are worded; everything else the model *)
(* says about the call is ADVISORY: printed, never blocking.               *)
(***************************************************************************)
EXTENDS CactusKev, HandRankSpec, CkcDeck, ChenSpec, ParseSpec, BitSets, Containers, Json, IOUtils

Rec == ndJsonDeserialize(IOEnv.TRACE)

VARIABLES l,      \* next event to consume
          objs    \* live stateful objects of the trace: id -> container array / card set
vars == <<l, objs>>

Ev == Rec[l]
Has_(f) == f \in DOMAIN Ev
Adv(cond, what) == IF cond THEN TRUE ELSE PrintT(<<"ADVISORY", l, what>>)
(* The property whose check is validating this trace (environment variable PROPERTY; "ALL" = every clause  *)
(* strict).  A clause is strict only under the properties whose statement covers it; under any other       *)
(* property it is advisory, so that a check never raises an alarm about a statement it does not own.       *)
Prop == IOEnv.PROPERTY
Own(ps, cond, what) == IF Prop = "ALL" \/ Prop \in ps THEN cond ELSE Adv(cond, what)

---------------------------------------------------------------------------
(* Input classes.                                                          *)
AllCards(h) == \A i \in 1..Len(h) : IsCardWord(h[i])
CardOrBlank(h) == \A i \in 1..Len(h) : IsCardWord(h[i]) \/ h[i] = Blank
DistinctCards(h) == AllCards(h) /\ PairwiseDistinct(h)
CardIdOf(w) == <<CardRankOf(w), CardSuitOf(w)>>
CardSetOf(h) == {CardIdOf(h[i]) : i \in 1..Len(h)}
RowsFor(n) == IF n = 6 THEN Comb65 ELSE Comb75

NoPanic5 == /\ Ev.value # -1 /\ Ev.v_value # -1 /\ Ev.v_rank # -1 /\ Ev.v_validated # -1
            /\ Ev.v_rank_validated # -1 /\ Ev.v_free # -1 /\ Ev.product # -1 /\ Ev.idx # -1
NoPanicN == /\ Ev.value # -1 /\ Ev.v_value # -1 /\ Ev.v_rank # -1 /\ Ev.v_validated # -1 /\ Ev.v_rank_validated # -1

(* the rank returned by hand_rank_validated(): the conversion of the validated value (C04, C06) *)
ValidatedRankIs(v) == /\ Ev.name_validated = NameOfValue(v) /\ Ev.class_validated = ClassOfValue(v)
                      /\ Ev.consistent_validated = TRUE

ClampKey(k) == IF k[1] = 0 /\ k[2] = 0 /\ k[3] < 32768 THEN k[3] * 65536 + k[4] ELSE BIGKEY

---------------------------------------------------------------------------
(* rank5: the five-slot evaluator with all its intermediate observables.   *)
Rank5Ok ==
    LET h == Ev.words
        model == Rank5W(h) IN
    /\ Len(h) = 5
    \* mechanism observables: named by no property
    /\ Adv(/\ Ev.or_bits = OrBits(h) /\ Ev.or_rank_bits = OrRankBits(h) /\ Ev.dep_or = OrRankBits(h) /\ Ev.and_bits = AndBits(h),
           "bit observables of the evaluator (mechanism, not named by any property)")
    /\ IF DistinctCards(h) THEN
            LET cs == CardSetOf(h)
                v == ValueOfCards(cs)
                cls == ClassOfCards(cs) IN
            /\ Assert(model = v, <<"SPEC ERROR: CactusKev does not refine PokerRules on", h>>)
            /\ Own({"C05"}, NoPanic5, "a ranking entry point unwound")
            /\ Own({"C01"}, /\ Ev.value = v /\ Ev.v_value = v /\ Ev.v_rank = v /\ Ev.v_validated = v       \* C01
                            /\ Ev.v_rank_validated = v /\ Ev.v_free = v, "five-card value (C01)")
            /\ Own({"C04"}, /\ Ev.v_value \notin {0, -1} /\ Ev.v_validated = Ev.v_value                   \* C04
                            /\ Ev.v_rank_validated = Ev.v_value /\ Ev.v_free = Ev.v_value, "validated = unvalidated on a valid hand (C04)")
            /\ Own({"C06"}, /\ Ev.name = CategoryName(Category(cls)) /\ Ev.class = ClassName(cls)           \* C06
                            /\ Ev.name = NameOfValue(v) /\ Ev.class = ClassOfValue(v) /\ Ev.v_rank = v
                            /\ ValidatedRankIs(v) /\ Ev.v_rank_validated = v, "reported rank describes the cards (C06)")
            /\ Own({"C03"}, Ev.witness = h /\ Ev.value = v, "five-card input reported unchanged (C03)")        \* C03
            /\ Own({"C13"}, /\ Ev.flush = IsFlushCards(cs) /\ Ev.straight = IsStraightCards(cs)             \* C13
                            /\ Ev.straight_flush = (IsFlushCards(cs) /\ IsStraightCards(cs))
                            /\ Ev.wheel = IsWheelCards(cs) /\ Ev.dep_flush = IsFlushCards(cs)
                            /\ Ev.straight = IsStraightW(h) /\ Ev.flush = IsFlushW(h) /\ Ev.wheel = IsWheelW(h), "predicates (C13)")
            /\ Adv(Ev.product = MultiplyPrimes(h), "multiply_primes (mechanism, not named by any property)")
            /\ Adv(Ev.idx = Find(Ev.product), "find_in_products index")
       ELSE IF CardOrBlank(h) THEN
            /\ Own({"C05"}, /\ NoPanic5                                                                  \* C05
                            /\ (\E i \in 1..5 : h[i] = Blank) =>
                                  /\ Ev.value = 0 /\ Ev.v_value = 0 /\ Ev.v_rank = 0 /\ Ev.v_validated = 0
                                  /\ Ev.v_rank_validated = 0 /\ Ev.v_free = 0
                                  /\ Ev.name = Invalid /\ Ev.class = Invalid /\ ValidatedRankIs(0),
                   "card-or-blank five: returns normally; with a blank it is 0 / Invalid (C05)")
            /\ Own({"C04"}, Ev.v_validated = 0 /\ Ev.v_free = 0 /\ Ev.v_rank_validated = 0, "validated ranking of a non-hand is 0 (C04)")
            /\ Own({"C06"}, ValidatedRankIs(Ev.v_rank_validated), "the validated rank is the conversion of its value (C06)")
            /\ Adv(Ev.product = MultiplyPrimes(h), "multiply_primes (mechanism, not named by any property)")
            /\ Adv(Ev.value = model, "value of a repeated-card hand")
            /\ Adv(/\ Ev.straight = IsStraightW(h) /\ Ev.flush = IsFlushW(h) /\ Ev.dep_flush = IsFlushW(h) /\ Ev.wheel = IsWheelW(h), "predicates on a non-hand")
       ELSE
            /\ Own({"C04"}, Ev.v_validated = 0 /\ Ev.v_free = 0 /\ Ev.v_rank_validated = 0, "validated ranking of a non-hand is 0 (C04)")
            /\ Own({"C06"}, ValidatedRankIs(Ev.v_rank_validated), "the validated rank is the conversion of its value (C06)")
            /\ Adv(Ev.value = model, "value of arbitrary words")
            /\ Adv(/\ Ev.flush = IsFlushW(h) /\ Ev.wheel = IsWheelW(h), "predicates on non-card words")

(* rankn: six / seven slots -- best-of loop, witness.                      *)
WitnessOk(h, wit, v) ==
    /\ Len(wit) = 5
    /\ \A i \in 1..4 : WGt(wit[i], wit[i + 1])
    /\ \A i \in 1..5 : \E j \in 1..Len(h) : h[j] = wit[i]
    /\ ValueOfCards(CardSetOf(wit)) = v
RankNOk ==
    LET h == Ev.words
        n == Len(h) IN
    /\ n \in {6, 7}
    /\ Own({"C04"}, Ev.valid = ValidSpec(h), "is_valid (C04)")                                           \* C04
    /\ IF DistinctCards(h) THEN
            LET cs == CardSetOf(h)
                v == Best(cs)
                model == RankNV(h, RowsFor(n), "fixed", "checked") IN
            /\ Assert(DirectValue(cs) = v, <<"SPEC ERROR: Best and Direct disagree on", h>>)
            /\ Assert(model.value = v, <<"SPEC ERROR: best-of loop does not refine Best on", h>>)
            /\ Assert(WitnessOk(h, model.witness, v), <<"SPEC ERROR: model witness", h>>)
            /\ Own({"C05"}, NoPanicN, "a ranking entry point unwound")
            /\ Own({"C02"}, /\ Ev.value = v /\ Ev.v_value = v /\ Ev.v_rank = v                              \* C02
                            /\ Ev.v_validated = v /\ Ev.v_rank_validated = v, "six/seven-card value (C02)")
            /\ Own({"C04"}, /\ Ev.v_value \notin {0, -1} /\ Ev.v_validated = Ev.v_value                   \* C04
                            /\ Ev.v_rank_validated = Ev.v_value, "validated = unvalidated on a valid hand (C04)")
            /\ Own({"C03"}, Ev.value # -1 /\ WitnessOk(h, Ev.witness, Ev.value), "reported best hand (C03)")     \* C03
            /\ Own({"C06"}, /\ Ev.name = NameOfValue(v) /\ Ev.class = ClassOfValue(v) /\ Ev.v_rank = v      \* C06
                            /\ ValidatedRankIs(v) /\ Ev.v_rank_validated = v, "reported rank describes the cards (C06)")
            /\ Adv(Ev.witness = model.witness, "which of several tied witnesses")
       ELSE
            /\ Own({"C04"}, Ev.v_validated = 0 /\ Ev.v_rank_validated = 0, "validated ranking of a non-hand is 0 (C04)")   \* C04
            /\ Own({"C06"}, ValidatedRankIs(Ev.v_rank_validated), "the validated rank is the conversion of its value (C06)")
            /\ CardOrBlank(h) => Own({"C05"}, NoPanicN, "a ranking entry point unwound on a card-or-blank hand (C05)")   \* C05
            /\ CardOrBlank(h) => Adv(Ev.value = RankNV(h, RowsFor(n), "fixed", "checked").value,
                                     "value of a six/seven-slot hand with blanks or repeats (best over its rankable five-slot selections)")

ValidOk ==
    LET h == Ev.words
        n == Len(h)
        valid == ValidSpec(h) IN
    /\ n \in Sizes
    /\ Ev.valid = valid                                                                    \* C04
    /\ Assert(ValidAsWritten(h) = valid, <<"SPEC ERROR: uniqueness-as-written and validity disagree on", h>>)
    /\ Adv(Ev.unique = UniqueAsWritten(h), "are_unique") /\ Adv(Ev.corrupt = IsCorrupt(h), "is_corrupt")
    /\ Adv(Ev.has_blank = ContainBlank(h), "contain_blank")
    /\ n >= 5 =>
         \* C04 relates validated ranking to validity and to unvalidated ranking; what the value of a valid
         \* hand is, and what the rank record says, belongs to C01 / C02 / C06
         /\ ~valid => (Ev.v_validated = 0 /\ Ev.v_rank_validated = 0 /\ (n = 5 => Ev.v_free = 0))
         /\ valid => /\ Ev.v_value \notin {0, -1}
                     /\ Ev.v_validated = Ev.v_value /\ Ev.v_rank_validated = Ev.v_value
                     /\ (n = 5 => Ev.v_free = Ev.v_value)
         /\ LET v == IF valid THEN Best(CardSetOf(h)) ELSE 0 IN
            /\ Own({"C01", "C02"}, valid => Ev.v_value = v, "value of a valid hand (C01 / C02)")
            /\ Own({"C06"}, ValidatedRankIs(v), "the validated rank record (C06)")

FindOk == /\ Ev.res # -1                                                                   \* C05
          /\ Adv(Ev.res = Find(ClampKey(Ev.key)), "find_in_products index")

DealOk ==
    LET h == Ev.words IN
    /\ Len(h) = 7 /\ DistinctCards(h)
    /\ Ev.v5 # -1 /\ Ev.v6 # -1 /\ Ev.v7 # -1
    /\ Ev.v7 <= Ev.v6 /\ Ev.v6 <= Ev.v5                                                    \* C09
    \* what the values are belongs to C01 / C02; C09 only relates them to one another
    /\ Own({"C01", "C02"}, /\ Ev.v5 = ValueOfCards(CardSetOf(SubSeq(h, 1, 5)))
                           /\ Ev.v6 = Best(CardSetOf(SubSeq(h, 1, 6)))
                           /\ Ev.v7 = Best(CardSetOf(h))
                           /\ Ev.v7 = DirectValue(CardSetOf(h)), "values of the dealt hands (C01 / C02)")

---------------------------------------------------------------------------
HrFromOk ==
    LET v == Ev.v hr == FromValue(v) IN
    /\ Ev.value = v /\ Ev.name = hr.name /\ Ev.class = hr.class                             \* C06
    /\ Ev.dname = hr.name /\ Ev.dclass = hr.class
    /\ Ev.invalid = ~IsRealValue(v) /\ Ev.consistent = TRUE
    /\ Adv(Ev.is_default = (v = 0), "HandRank::default() is the conversion of 0")

CmpOk ==
    LET a == R(Ev.a) b == R(Ev.b) c == Ev.cmp IN
    /\ c \in {"Less", "Equal", "Greater"}
    /\ (~IsInvalid(a) \/ ~IsInvalid(b)) => c = Cmp(a, b)                                    \* C07
    /\ (c = "Equal") <=> (Ev.a = Ev.b)
    /\ Ev.partial = c
    /\ Ev.lt = (c = "Less") /\ Ev.le = (c # "Greater") /\ Ev.gt = (c = "Greater") /\ Ev.ge = (c # "Less")
    /\ Ev.eq = (Ev.a = Ev.b)
    /\ Ev.lawful = TRUE
    /\ Adv(c = Cmp(a, b), "order of two invalid ranks")

CmpInts(x, y) == IF x < y THEN "Less" ELSE IF x > y THEN "Greater" ELSE "Equal"
\* NamePos / ClassPos put the Invalid member after every real one: an invalid rank compares below every
\* valid one, and "sorting by rank, category or class never contradicts sorting by strength" (C07).
EnumCmpOk ==
    /\ Ev.name_cmp = CmpInts(NamePos(Ev.a), NamePos(Ev.b))                                  \* C07
    /\ Ev.class_cmp = CmpInts(ClassPos(Ev.a), ClassPos(Ev.b))

ChenOk ==
    LET a == Ev.a b == Ev.b IN
    /\ IsCardWord(a) /\ IsCardWord(b) /\ a # b
    /\ Ev.score = ChenScore(a, b)                                                          \* C17
    /\ Ev.score = ChenScore(b, a) /\ Ev.score = ChenScore(ShiftWord(a), ShiftWord(b))
    /\ Ev.gap = Gap(a, b) /\ Ev.pair = IsPocketPair(a, b) /\ Ev.suited = IsSuited(a, b)
    /\ Ev.high = HighWord(a, b)
    /\ ~IsPocketPair(a, b) => (Ev.connector = IsConnector(a, b) /\ Ev.suited_connector = IsSuitedConnector(a, b))
    /\ Adv(Ev.connector = IsConnector(a, b), "pocket pair counted as connector")

---------------------------------------------------------------------------
RankOfName(nm) == IF nm = "BLANK" THEN NoRank ELSE CHOOSE r \in Ranks : RankEnumName[r + 1] = nm
SuitOfName(nm) == IF nm = "BLANK" THEN NoSuit ELSE CHOOSE s \in Suits : SuitEnumName[s + 1] = nm

CreateOk == LET r == RankOfName(Ev.rank) s == SuitOfName(Ev.suit) IN
            /\ Ev.res = CreateSpec(r, s) /\ Ev.res = Create(r, s)                            \* C10
            /\ Ev.sig = (IF s = NoSuit THEN 0 ELSE 2^(12 + s))
FilterOk == Own({"C04", "C10"}, Ev.res = Filter(Ev.w) /\ Ev.res2 = Filter(Ev.w), "card recogniser (C04, C10)")   \* C04, C10
\* C10 speaks of the 52 cards (and blank), C20 of marked cards; accessors on other words are named by nothing
AccOk == LET w == Ev.w
             fields == /\ Ev.rank = RankName(CardRankOf(w)) /\ Ev.suit = SuitName(CardSuitOf(w))
                       /\ Ev.prime = RankPrime(w) /\ Ev.rank_bit = RankBit(w) /\ Ev.rank_flag = RankFlag(w)
                       /\ Ev.suit_bit = SuitBit(w) /\ Ev.suit_flag = SuitFlag(w)
                       /\ Ev.rank_char = RankCharOf(w) /\ Ev.suit_char = SuitCharOf(w) /\ Ev.suit_letter = SuitLetterOf(w)
                       /\ Ev.blank = (w = Blank)
         IN
         /\ IF IsCardWord(w) THEN Own({"C10"}, fields, "accessors on a card (C10)")
            ELSE IF w = Blank THEN Adv(fields, "accessors on the blank card")
            ELSE IF IsCardWord(Strip(w)) THEN Adv(fields, "accessors on a marked card (C20 relates them to the card's own: flag.same_reads)")
            ELSE Adv(fields, "accessors on a word that is neither a card nor a marked card")
         /\ IsCardWord(w) => Own({"C17"}, Ev.chen2 = ChenHalfPoints(w) /\ Ev.chen_exact = TRUE, "per-card Chen points (C17)")   \* C17
         /\ ~IsCardWord(w) => Adv(Ev.chen2 = ChenHalfPoints(w), "Chen points of a non-card word")
         /\ IsCardWord(w) => (w = WordOf(CardRankOf(w), CardSuitOf(w)) /\ RankNumberField(w) = CardRankOf(w))
\* C20 speaks of marking a card; marking other words is named by nothing
FlagOk == LET w == Ev.w m == MarkAll(w, Ev.marks) IN
          IF IsCardWord(w)
          THEN /\ Ev.res = m /\ Ev.stripped = Strip(m)                                       \* C20
               /\ Ev.stripped = w /\ (Ev.marks # <<>> => \A c \in CardWords : WGt(m, c))
               /\ Ev.same_reads = TRUE      \* the accessors read the same on the marked word as on the card
          ELSE Adv(Ev.res = m /\ Ev.stripped = Strip(m), "marking / stripping a word that is not a card")
ShiftWordOk == LET w == Ev.w
                   ok == /\ Ev.res = ShiftCardSpec(w) /\ Ev.next_suit = SuitName(NextSuit(w)) /\ Ev.res = ShiftWord(w) IN
               IF IsCardWord(w) \/ w = Blank THEN ok                                         \* C08
               ELSE Adv(ok, "shift of a word that is neither a card nor blank")

U64Small(k) == k[1] = 0 /\ k[2] = 0 /\ k[3] = 0
DeckGetOk == /\ Ev.res = (IF U64Small(Ev.index) THEN DeckGet(Ev.index[4]) ELSE Blank)         \* C18
             /\ Ev.len = DeckSize
DeckOk == /\ Own({"C18", "C10", "C11"}, Ev.words = Deck, "the deck (C18, C10)")                    \* C18, C10
          /\ Own({"C14"}, Ev.bits = [i \in 1..DeckSize |-> LimbsOfBit(BitOfDeckIndex(i - 1))], "the deck of bits (C14)")   \* C14
TableOk == LET t == Ev.rows IN
           CASE Ev.name = "omaha" -> t = Comb42 /\ IsCombTable(t, 4, 2)                       \* C18
             [] Ev.name = "six"   -> t = Comb65 /\ IsCombTable(t, 6, 5)
             [] Ev.name = "seven" -> t = Comb75 /\ IsCombTable(t, 7, 5)
PresetOk == LET ps == Ev.pairs S == Preset(Ev.name) IN
            /\ Len(ps) = Cardinality(S)                                                     \* C18
            /\ {<<ps[i][1], ps[i][2]>> : i \in 1..Len(ps)} = S
            /\ \A i \in 1..Len(ps) : WGt(ps[i][1], ps[i][2])

---------------------------------------------------------------------------
(* Containers.  Events that carry "obj" belong to a live object: its state *)
(* before the call must be the state the specification holds for it.       *)
Continuity == Has_("obj") => (Ev.obj \in DOMAIN objs /\ objs[Ev.obj] = Ev.pre)
Readers(post) == Ev.post = post /\ Ev.acc = post /\ Ev.iter = post
CNewOk == Readers(Ev.words)                                                                 \* C19
CSetOk == LET post == SetSlot(Ev.pre, Ev.slot, Ev.w) IN
          /\ Continuity /\ Ev.slot \in 0..(Len(Ev.pre) - 1)
          /\ Readers(post)                                                                 \* C19
          /\ Has_("first") => Ev.first = post[1]
Select5Ok == Continuity /\ Ev.res = SelectSlots(Ev.pre, Ev.perm)                            \* C19
CDefaultOk == Adv(Ev.post = [i \in 1..Ev.n |-> Blank], "default container is all blank")
SortOk == LET s == SortDesc(Ev.pre) IN
          /\ Ev.copy = s /\ Ev.inplace = s /\ Ev.again = s                                  \* C11
          /\ IsNonIncreasing(Ev.copy) /\ SameMultiset(Ev.copy, Ev.pre)
ShiftHandOk == LET h == Ev.pre IN
               /\ CardOrBlank(h) => Ev.res = [i \in 1..Len(h) |-> ShiftCardSpec(h[i])]      \* C08
               /\ Adv(Ev.res = ShiftHand(h), "shift of non-card words")
(* shift_value: a hand of five to seven distinct cards, the same hand shifted, and the values the code gives  *)
(* to both through the unvalidated and the validated entry point.  C08 relates the two values to each other;  *)
(* what the value is belongs to C01 / C02.                                                                    *)
ShiftValueOk == LET h == Ev.pre IN
                /\ DistinctCards(h) /\ Len(h) \in {5, 6, 7}
                /\ Ev.res = [i \in 1..Len(h) |-> ShiftCardSpec(h[i])]                      \* C08
                /\ Ev.v_pre # -1 /\ Ev.v_post = Ev.v_pre /\ Ev.vv_pre # -1 /\ Ev.vv_post = Ev.vv_pre
                /\ Adv(Ev.v_pre = Best(CardSetOf(h)), "value of the hand (C01 / C02)")

---------------------------------------------------------------------------
RankSymOk == Ev.res = RankName(RankSym(Ev.cp))                                              \* C12
SuitSymOk == Ev.res = SuitName(SuitSym(Ev.cp))
ParseCardOk == LET s == Ev.s IN
               /\ Ev.ok = TRUE                                                              \* C12: total
               /\ Ev.res = ParseTokenSpec(s) /\ Ev.res = ParseToken(s)
               /\ Adv(Len(s) >= 2 => (Ev.rank = RankName(RankSym(s[1])) /\ Ev.suit = SuitName(SuitSym(s[2]))), "get_rank_and_suit")
ParseHandOk == LET toks == Split(Ev.s) n == Ev.n IN
               /\ Ev.kind # "panic"
               /\ Len(toks) < n => (Ev.kind = InvalidIndex /\ (Has_("free") => Ev.free_kind = "None"))
               /\ Len(toks) = n => /\ Ev.kind = "ok"
                                   /\ Ev.res = [i \in 1..n |-> ParseTokenSpec(toks[i])]
                                   /\ Ev.res = ParseHand(n, Ev.s).words
                                   /\ (Has_("free") => (Ev.free_kind = "ok" /\ Ev.free = Ev.res))
               /\ Len(toks) > n => Adv(Ev.kind = "ok" /\ Ev.res = ParseHand(n, Ev.s).words, "extra tokens ignored")
ParseSetOk == Own({"C15"}, Ev.ok = TRUE /\ Ev.res = LimbsOfBitSet(ParseSetBits(Ev.s)), "set built from text (C15)")   \* C15

BcFromCkcOk == /\ Ev.res = FromCkc(Ev.w)                                                     \* C14
               /\ IsCardWord(Ev.w) => ToCkc(Ev.res) = Ev.w
CkcFromBcOk == Ev.res = ToCkc(Ev.bc)
BcFromHandOk == /\ Ev.res = FromHand(Ev.words)                                               \* C15
                /\ CardOrBlank(Ev.words) => BitSetOfLimbs(Ev.res) = FromHandSpec(Ev.words)
BcNewOk == TRUE
BcFoldOk == /\ Continuity /\ Ev.res = FoldIn(Ev.pre, Ev.arg)
            /\ BitSetOfLimbs(Ev.res) = BitSetOfLimbs(Ev.pre) \cup BitSetOfLimbs(Ev.arg)
BcHasOk == /\ Continuity /\ Ev.res = Has(Ev.pre, Ev.arg)
           /\ Ev.res = (BitSetOfLimbs(Ev.arg) \subseteq BitSetOfLimbs(Ev.pre))
BcInfoOk == /\ Continuity /\ Ev.count = Count(Ev.pre) /\ Ev.single = IsSingle(Ev.pre)
            /\ Ev.valid = IsValidSet(Ev.pre)
            /\ Ev.valid = (BitSetOfLimbs(Ev.pre) # {} /\ BitSetOfLimbs(Ev.pre) \subseteq CardBits)
BcPeelOk == LET p == Peel(Ev.pre) IN Continuity /\ Ev.res = p.card /\ Ev.post = p.rest
TwoFromBcOk == LET r == TwoFromBits(Ev.bc) sp == TwoFromBitsSpec(Ev.bc) IN
               /\ Assert(r = sp, <<"SPEC ERROR: TwoFromBits transcription and statement disagree on", Ev.bc>>)
               /\ Ev.kind = sp.kind /\ Ev.res = sp.cards                                    \* C16
               /\ sp.kind = "ok" => Ev.back = Ev.bc

---------------------------------------------------------------------------
(* Advisory extensions: behaviour that no listed property speaks about.    *)
(* Modelled and compared, but never blocking.                              *)
RECURSIVE SeqCmp(_, _, _)
SeqCmp(a, b, i) == IF i > Len(a) THEN "Equal"
                   ELSE IF WLt(a[i], b[i]) THEN "Less" ELSE IF WLt(b[i], a[i]) THEN "Greater" ELSE SeqCmp(a, b, i + 1)
AdvSerdeOk == Adv(Ev.as_numbers = Ev.words /\ Ev.back = Ev.words, "serde round trip of a container (a JSON array of the words)")
AdvCmpOk == /\ Adv(Ev.cmp = SeqCmp(Ev.a, Ev.b, 1), "derived ordering of containers is lexicographic on the words")
            /\ Adv(Ev.eq = (Ev.a = Ev.b), "container equality")
AdvHrOk == Adv(Ev.round_trip /\ Ev.display_is_debug, "serde round trip / Display of a hand rank")
AdvConstsOk == /\ Adv(Ev.possible_combinations = POSSIBLE_COMBINATIONS /\ Ev.possible_combinations_free = POSSIBLE_COMBINATIONS, "POSSIBLE_COMBINATIONS")
               /\ Adv(Ev.straight_padding = STRAIGHT_PADDING /\ Ev.wheel_or_bits = WHEEL_OR_BITS, "straight constants")
               /\ Adv(Ev.no_hand_rank_value = 0 /\ Ev.deck_size = DeckSize, "NO_HAND_RANK_VALUE / DECK_SIZE")
               /\ Adv(Ev.rank_flag_filter = <<RANK_FLAG_HI, 0>> /\ Ev.suit_filter = <<0, SUIT_MASK>>, "field masks")
               /\ Adv(Ev.multiples_filter = <<RANK_FLAG_HI, 65535>> /\ Ev.pair = <<PAIR_HI, 0>> /\ Ev.trips = <<TRIPS_HI, 0>> /\ Ev.quads = <<QUADS_HI, 0>>, "multiples constants")

---------------------------------------------------------------------------
EventOk ==
    CASE Ev.op = "rank5" -> Rank5Ok
      [] Ev.op = "rankn" -> RankNOk
      [] Ev.op = "valid" -> Own({"C04"}, ValidOk, "validity and validated ranking (C04)")
      [] Ev.op = "find" -> Own({"C05"}, FindOk, "product search returns normally (C05)")
      [] Ev.op = "deal" -> Own({"C09", "C01", "C02"}, DealOk, "dealing card by card (C09)")
      [] Ev.op = "hr_from" -> Own({"C06"}, HrFromOk, "conversion of a value (C06)")
      [] Ev.op = "cmp" -> Own({"C07"}, CmpOk, "comparison of two ranks (C07)")
      [] Ev.op = "enum_cmp" -> Own({"C07"}, EnumCmpOk, "order of the enumerations (C07)")
      [] Ev.op = "chen" -> Own({"C17"}, ChenOk, "Chen score (C17)")
      [] Ev.op = "create" -> Own({"C10"}, CreateOk, "construction from rank and suit (C10)")
      [] Ev.op = "filter" -> FilterOk
      [] Ev.op = "acc" -> AccOk
      [] Ev.op = "flag" -> Own({"C20"}, FlagOk, "marking and stripping (C20)")
      [] Ev.op = "shift_word" -> Own({"C08"}, ShiftWordOk, "card shift (C08)")
      [] Ev.op = "deck_get" -> Own({"C18"}, DeckGetOk, "deck access (C18)")
      [] Ev.op = "deck" -> DeckOk
      [] Ev.op = "table" -> Own({"C18"}, TableOk, "slot-index table (C18)")
      [] Ev.op = "preset" -> Own({"C18"}, PresetOk, "preset table (C18)")
      [] Ev.op \in {"c_from", "c_parts"} -> Own({"C19"}, CNewOk, "constructor (C19)")
      [] Ev.op = "c_set" -> Own({"C19"}, CSetOk, "setter (C19)")
      [] Ev.op = "select5" -> Own({"C19"}, Select5Ok, "slot-index selection (C19)")
      [] Ev.op = "c_default" -> CDefaultOk
      [] Ev.op = "sort" -> Own({"C11"}, SortOk, "sorting (C11)")
      [] Ev.op = "shift_hand" -> Own({"C08"}, ShiftHandOk, "hand shift (C08)")
      [] Ev.op = "shift_value" -> Own({"C08"}, ShiftValueOk, "value under shifting (C08)")
      [] Ev.op = "rank_sym" -> Own({"C12"}, RankSymOk, "rank symbol (C12)")
      [] Ev.op = "suit_sym" -> Own({"C12"}, SuitSymOk, "suit symbol (C12)")
      [] Ev.op = "parse_card" -> Own({"C12"}, ParseCardOk, "token parser (C12)")
      [] Ev.op = "parse_hand" -> Own({"C12"}, ParseHandOk, "hand parser (C12)")
      [] Ev.op = "parse_set" -> ParseSetOk
      [] Ev.op = "bc_from_ckc" -> Own({"C14"}, BcFromCkcOk, "word to bit (C14)")
      [] Ev.op = "ckc_from_bc" -> Own({"C14"}, CkcFromBcOk, "bit to word (C14)")
      [] Ev.op = "bc_from_hand" -> Own({"C15"}, BcFromHandOk, "set from a hand (C15)")
      [] Ev.op = "bc_new" -> BcNewOk
      [] Ev.op = "bc_fold" -> Own({"C15"}, BcFoldOk, "fold-in (C15)")
      [] Ev.op = "bc_has" -> Own({"C15"}, BcHasOk, "membership (C15)")
      [] Ev.op = "bc_info" -> Own({"C15"}, BcInfoOk, "count / validity (C15)")
      [] Ev.op = "bc_peel" -> Own({"C15"}, BcPeelOk, "peel (C15)")
      [] Ev.op = "two_from_bc" -> Own({"C16"}, TwoFromBcOk, "two-card hand from a set (C16)")
      [] Ev.op = "adv_serde" -> AdvSerdeOk
      [] Ev.op = "adv_cmp" -> AdvCmpOk
      [] Ev.op = "adv_hr" -> AdvHrOk
      [] Ev.op = "adv_consts" -> AdvConstsOk
      [] Ev.op = "reset" -> TRUE
      [] OTHER -> FALSE

(* How a consumed event changes the live objects.                          *)
NewObjs ==
    IF ~Has_("obj") THEN objs
    ELSE LET id == Ev.obj
             st == CASE Ev.op \in {"c_from", "c_parts", "c_set", "bc_new", "bc_peel"} -> Ev.post
                     [] Ev.op = "bc_fold" -> Ev.res
                     [] OTHER -> Ev.pre
         IN [k \in DOMAIN objs \cup {id} |-> IF k = id THEN st ELSE objs[k]]

TraceInit == l = 1 /\ objs = <<>>
TraceNext == /\ l <= Len(Rec)
             /\ ~Has_("panic")              \* a recorded call that unwound is never explainable
             /\ EventOk
             /\ l' = l + 1
             /\ objs' = IF Ev.op = "reset" THEN <<>> ELSE NewObjs
TraceSpec == TraceInit /\ [][TraceNext]_vars

(* All events consumed?  On rejection print the first unmatched event.     *)
TraceAccepted ==
    LET d == TLCGet("stats").diameter IN
    IF d - 1 = Len(Rec) THEN PrintT(<<"TRACE ACCEPTED", Len(Rec)>>)
    ELSE /\ PrintT(<<"TRACE REJECTED at event", d, "of", Len(Rec)>>)
         /\ PrintT(ToJson(Rec[d]))
         /\ FALSE
=============================================================================
