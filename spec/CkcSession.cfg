SPECIFICATION Spec
CONSTANT MaxSteps = 40
CONSTANT Seeds = 5000
INVARIANT TypeOk
INVARIANT Emit
PROPERTY DealMonotone
PROPERTY SetContainerLink
CHECK_DEADLOCK FALSE
