------------------------------ MODULE CkcWords ------------------------------
(***************************************************************************)
(* 32-bit "Cactus Kev" card words of ckc-rs.                               *)
(*                                                                         *)
(* TLC integers are 32-bit signed, and the properties talk about words     *)
(* with bit 31 set, so a word is the pair <<hi, lo>> of its 16-bit halves. *)
(* Numeric order is the lexicographic order on the pair; AND / OR act      *)
(* halfwise.  Layout (documented in src/lib.rs):                           *)
(*                                                                         *)
(*      +--------+--------+--------+--------+                              *)
(*      |mmmbbbbb|bbbbbbbb|SHDCrrrr|xxpppppp|                              *)
(*      +--------+--------+--------+--------+                              *)
(*        hi = mmm bbbbbbbbbbbbb          lo = SHDC rrrr xx pppppp         *)
(*                                                                         *)
(* Ranks are 0 (deuce) .. 12 (ace); suits 0 clubs, 1 diamonds, 2 hearts,   *)
(* 3 spades, which is the order of the suit bits.                          *)
(***************************************************************************)
EXTENDS CkcBase, Bitwise

Half  == 0..65535

PrimeOf == <<2, 3, 5, 7, 11, 13, 17, 19, 23, 29, 31, 37, 41>>   \* PrimeOf[r+1]

Blank == <<0, 0>>
AllOnes == <<65535, 65535>>

(* The documented layout: one rank bit (16+r), one suit bit (12+s), the    *)
(* rank number in bits 8-11 and the rank's prime in bits 0-5.              *)
WordOf(r, s) == << 2^r, 2^(12 + s) + 256 * r + PrimeOf[r + 1] >>

CardIds   == {<<r, s>> : r \in Ranks, s \in Suits}
CardWords == {WordOf(p[1], p[2]) : p \in CardIds}
IsCardWord(w) == w \in CardWords

(* Partial inverse of WordOf, by the rules (no table): a word is a card    *)
(* iff some (r, s) renders to it.                                          *)
RankOfCard(w) == CHOOSE r \in Ranks : \E s \in Suits : w = WordOf(r, s)
SuitOfCard(w) == CHOOSE s \in Suits : \E r \in Ranks : w = WordOf(r, s)

IsWord(w) == /\ w \in Seq(Nat) /\ Len(w) = 2 /\ w[1] \in Half /\ w[2] \in Half

---------------------------------------------------------------------------
(* Halfwise logic and numeric order.                                       *)
WAnd(a, b) == << a[1] & b[1], a[2] & b[2] >>
WOr(a, b)  == << a[1] | b[1], a[2] | b[2] >>
WLt(a, b)  == a[1] < b[1] \/ (a[1] = b[1] /\ a[2] < b[2])
WLe(a, b)  == a = b \/ WLt(a, b)
WGt(a, b)  == WLt(b, a)
WMax(a, b) == IF WLt(a, b) THEN b ELSE a

---------------------------------------------------------------------------
(* Field accessors exactly as the code masks and shifts.                   *)
RANK_FLAG_HI == 8191         \* 0x1FFF0000 >> 16 : bits 16..28
PRIME_MASK   == 63           \* 0b00111111
SUIT_MASK    == 61440        \* 0xF000
PAIR_HI      == 8192         \* 0x20000000 >> 16
TRIPS_HI     == 16384        \* 0x40000000 >> 16
QUADS_HI     == 32768        \* 0x80000000 >> 16

RankFlag(w)  == << w[1] & RANK_FLAG_HI, 0 >>     \* get_rank_flag (a word)
RankBit(w)   == w[1] & RANK_FLAG_HI              \* get_rank_bit  (an integer)
RankPrime(w) == w[2] & PRIME_MASK                \* get_rank_prime
SuitFlag(w)  == w[2] & SUIT_MASK                 \* get_suit_flag (fits 16 bits)
SuitBit(w)   == (w[2] & SUIT_MASK) \div 4096     \* get_suit_bit
RankNumberField(w) == (w[2] \div 256) % 16       \* bits 8-11 (no accessor in the API)

IsPow2(n) == n > 0 /\ (n & (n - 1)) = 0
Log2(n)   == CHOOSE k \in 0..15 : 2^k = n

(* get_card_rank / get_card_suit as written: a match on the single bit;    *)
(* anything else is the BLANK member, written -1 here.                     *)
CardRankOf(w) == LET b == RankBit(w) IN IF IsPow2(b) /\ b <= 4096 THEN Log2(b) ELSE NoRank
CardSuitOf(w) == LET b == SuitBit(w) IN IF IsPow2(b) THEN Log2(b) ELSE NoSuit

RankEnumName == <<"TWO", "THREE", "FOUR", "FIVE", "SIX", "SEVEN", "EIGHT", "NINE",
                  "TEN", "JACK", "QUEEN", "KING", "ACE">>
SuitEnumName == <<"CLUBS", "DIAMONDS", "HEARTS", "SPADES">>
RankName(r) == IF r = NoRank THEN "BLANK" ELSE RankEnumName[r + 1]
SuitName(s) == IF s = NoSuit THEN "BLANK" ELSE SuitEnumName[s + 1]

RankChars == <<50, 51, 52, 53, 54, 55, 56, 57, 84, 74, 81, 75, 65>>  \* '2'..'9','T','J','Q','K','A'
SuitGlyphs == <<9827, 9830, 9829, 9824>>    \* U+2663 club, U+2666 diamond, U+2665 heart, U+2660 spade
SuitLetters == <<67, 68, 72, 83>>           \* 'C','D','H','S'
Underscore == 95
RankCharOf(w)   == LET r == CardRankOf(w) IN IF r = NoRank THEN Underscore ELSE RankChars[r + 1]
SuitCharOf(w)   == LET s == CardSuitOf(w) IN IF s = NoSuit THEN Underscore ELSE SuitGlyphs[s + 1]
SuitLetterOf(w) == LET s == CardSuitOf(w) IN IF s = NoSuit THEN Underscore ELSE SuitLetters[s + 1]

---------------------------------------------------------------------------
(* The 52-way card filter and construction from the enumerations.          *)
Filter(w) == IF IsCardWord(w) THEN w ELSE Blank

(* The code ORs rank.bits() | rank.prime() | rank.shift8() | suit.binary_signature() *)
(* and then filters.  Deviation named on purpose: the BLANK rank member    *)
(* contributes the deuce's rank bit (number() falls through to 0) and      *)
(* prime 0, so the raw word is not zero; only the filter makes it blank.   *)
RawCreate(r, s) ==
    LET rb == IF r = NoRank THEN 1 ELSE 2^r
        pr == IF r = NoRank THEN 0 ELSE PrimeOf[r + 1]
        s8 == IF r = NoRank THEN 0 ELSE 256 * r
        sg == IF s = NoSuit THEN 0 ELSE 2^(12 + s)
    IN << rb, (pr | s8) | sg >>
Create(r, s) == Filter(RawCreate(r, s))

(* What the property says about construction.                              *)
CreateSpec(r, s) == IF r = NoRank \/ s = NoSuit THEN Blank ELSE WordOf(r, s)

---------------------------------------------------------------------------
(* Suit shifting: spades -> hearts -> diamonds -> clubs -> spades.          *)
NextSuitOf(s) == IF s = NoSuit THEN NoSuit ELSE (s + 3) % 4
NextSuit(w)   == NextSuitOf(CardSuitOf(w))
ShiftWord(w)  == Create(CardRankOf(w), NextSuit(w))     \* as the code builds it
ShiftCardSpec(w) == IF IsCardWord(w) THEN WordOf(RankOfCard(w), (SuitOfCard(w) + 3) % 4)
                    ELSE IF w = Blank THEN Blank ELSE ShiftWord(w)

---------------------------------------------------------------------------
(* Multiples flags.                                                        *)
FlagPair(w)  == << w[1] | PAIR_HI,  w[2] >>
FlagTrips(w) == << w[1] | TRIPS_HI, w[2] >>
FlagQuads(w) == << w[1] | QUADS_HI, w[2] >>
Strip(w)     == << w[1] & RANK_FLAG_HI, w[2] >>          \* & 0x1FFFFFFF
Mark(w, m) == CASE m = "pair"  -> FlagPair(w)
                [] m = "trips" -> FlagTrips(w)
                [] m = "quads" -> FlagQuads(w)
RECURSIVE MarkAll(_, _)
MarkAll(w, ms) == IF ms = <<>> THEN w ELSE MarkAll(Mark(w, Head(ms)), Tail(ms))
FlagBits(w) == w[1] - (w[1] & RANK_FLAG_HI)

---------------------------------------------------------------------------
(* Chen points of a card, in half points (ace 10, king 8, queen 7, jack 6, *)
(* otherwise half the pip value; blank 0).                                 *)
ChenHalfPointsOfRank(r) ==
    CASE r = NoRank -> 0
      [] r = 12 -> 20
      [] r = 11 -> 16
      [] r = 10 -> 14
      [] r = 9  -> 12
      [] OTHER  -> r + 2       \* pip value (r + 2) / 2 points
ChenHalfPoints(w) == ChenHalfPointsOfRank(CardRankOf(w))
=============================================================================
