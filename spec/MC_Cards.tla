------------------------------ MODULE MC_Cards ------------------------------
(***************************************************************************)
(* C10, C11, C20, C08 (card level), C14, C18 (deck): the word layout.      *)
(* State: two words (cards possibly marked) ; steps shift both cards or    *)
(* mark the first one.  All 52 x 52 pairs x 8 mark sets are reached.       *)
(***************************************************************************)
EXTENDS BitSets

VARIABLES s_w1, s_w2
vars == <<s_w1, s_w2>>
Init == s_w1 \in CardWords /\ s_w2 \in CardWords
ShiftBoth == s_w1 = Strip(s_w1) /\ s_w1' = ShiftWord(s_w1) /\ s_w2' = ShiftWord(s_w2)
MarkFirst == \E m \in {"pair", "trips", "quads"} : s_w1' = Mark(s_w1, m) /\ UNCHANGED s_w2
Next == ShiftBoth \/ MarkFirst
Spec == Init /\ [][Next]_vars

Base1 == Strip(s_w1)
R1 == CardRankOf(s_w1)
S1 == CardSuitOf(s_w1)
R2 == CardRankOf(s_w2)
S2 == CardSuitOf(s_w2)

(* C10: the documented layout; accessors invert construction; fields disjoint *)
Layout == /\ Base1 = WordOf(R1, S1) /\ s_w2 = WordOf(R2, S2)
          /\ RankPrime(s_w1) = PrimeOf[R1 + 1] /\ RankNumberField(s_w1) = R1
          /\ RankBit(s_w1) = 2^R1 /\ SuitBit(s_w1) = 2^S1
          /\ s_w2[2] = SuitFlag(s_w2) + 256 * RankNumberField(s_w2) + RankPrime(s_w2)
          /\ s_w2[1] = RankBit(s_w2)
          /\ Filter(s_w2) = s_w2 /\ Create(R2, S2) = s_w2 /\ CreateSpec(R2, S2) = s_w2
          /\ RankOfCard(s_w2) = R2 /\ SuitOfCard(s_w2) = S2
(* C11: numeric order is rank-then-suit; blank lowest                       *)
Order == /\ WLt(Base1, s_w2) <=> (R1 < R2 \/ (R1 = R2 /\ S1 < S2))
         /\ WLt(Blank, s_w2) /\ ~WLt(s_w2, Blank)
(* C20: flags                                                               *)
Flags == /\ Strip(s_w1) \in CardWords
         /\ (FlagBits(s_w1) # 0) => WGt(s_w1, s_w2)
         /\ WGt(FlagQuads(s_w2), FlagTrips(Base1)) /\ WGt(FlagTrips(s_w2), FlagPair(Base1)) /\ WGt(FlagPair(s_w2), Base1)
         /\ FlagPair(FlagPair(s_w1)) = FlagPair(s_w1) /\ Strip(FlagQuads(FlagTrips(FlagPair(s_w1)))) = Base1
         /\ RankCharOf(s_w1) = RankCharOf(Base1) /\ SuitCharOf(s_w1) = SuitCharOf(Base1) /\ SuitLetterOf(s_w1) = SuitLetterOf(Base1)
(* C08: card shift is the rank-preserving 4-cycle S > H > D > C > S          *)
Shift == /\ ShiftWord(s_w2) = ShiftCardSpec(s_w2)
         /\ CardRankOf(ShiftWord(s_w2)) = R2 /\ CardSuitOf(ShiftWord(s_w2)) = (S2 + 3) % 4
         /\ ShiftWord(ShiftWord(ShiftWord(ShiftWord(s_w2)))) = s_w2
         /\ ShiftWord(Blank) = Blank
(* C14 / C18: deck position and bit position                                *)
Positions == /\ DeckWord(DeckIndexOf(R2, S2)) = s_w2
             /\ ToCkc(FromCkc(s_w2)) = s_w2
             /\ BitSetOfLimbs(FromCkc(s_w2)) = {51 - DeckIndexOf(R2, S2)}
             /\ (s_w2 # Base1) => FromCkc(s_w2) # FromCkc(Base1)

ASSUME Cardinality(CardWords) = 52
ASSUME \A r \in Ranks \cup {NoRank}, s \in Suits \cup {NoSuit} : Create(r, s) = CreateSpec(r, s)
ASSUME \A i \in 0..51 : DeckIndexOf(DeckRank(i), DeckSuit(i)) = i
ASSUME Deck[1] = WordOf(12, 3) /\ Deck[52] = WordOf(0, 0) /\ DeckGet(52) = Blank /\ DeckGet(51) = Deck[52]
ASSUME FromCkc(Blank) = ZeroLimbs /\ ToCkc(ZeroLimbs) = Blank /\ ToCkc(LimbsOfBit(52)) = Blank /\ ToCkc(LOr(LimbsOfBit(1), LimbsOfBit(2))) = Blank
ASSUME IsCombTable(Comb42, 4, 2) /\ IsCombTable(Comb65, 6, 5) /\ IsCombTable(Comb75, 7, 5) /\ Len(Comb75) = 21
ASSUME Cardinality(PresetAA) = 6 /\ Cardinality(PresetAK) = 16 /\ Cardinality(PresetAKs) = 4 /\ Cardinality(PresetAKo) = 12
          /\ Cardinality(PresetAQs) = 4 /\ Cardinality(PresetAQo) = 12 /\ PresetAKs \cup PresetAKo = PresetAK /\ PresetAKs \cap PresetAKo = {}
=============================================================================
