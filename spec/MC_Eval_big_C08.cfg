SPECIFICATION Spec
CONSTANT DeckName = "big"
INVARIANT SuitBlind
CHECK_DEADLOCK FALSE
