SPECIFICATION Spec
CONSTANT Variant = "fixed"
CONSTANT Mode = "checked"
INVARIANT NoPanic
INVARIANT Bounds
INVARIANT Terminates
INVARIANT Correct
CHECK_DEADLOCK FALSE
