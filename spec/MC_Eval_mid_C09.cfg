SPECIFICATION Spec
CONSTANT DeckName = "mid"
INVARIANT MinOfSubHands
PROPERTY DealNeverWeakens
CHECK_DEADLOCK FALSE
