SPECIFICATION Spec
CONSTANT Variant = "fixed"
INVARIANT Reflexive
INVARIANT Antisymmetric
INVARIANT EqualIffEq
INVARIANT Transitive
INVARIANT InvalidLowest
INVARIANT StrongerGreater
INVARIANT Consistent
INVARIANT SameAsProved
CHECK_DEADLOCK FALSE
