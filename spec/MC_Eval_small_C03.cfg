SPECIFICATION Spec
CONSTANT DeckName = "small"
INVARIANT WitnessOk
CHECK_DEADLOCK FALSE
