SPECIFICATION Spec
INVARIANT Refines
INVARIANT Symmetric
INVARIANT ShiftInvariant
INVARIANT OnlyRanksAndSuitedness
INVARIANT Helpers
CHECK_DEADLOCK FALSE
