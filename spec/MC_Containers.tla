--------------------------- MODULE MC_Containers ----------------------------
(***************************************************************************)
(* C19, C11 (sorting), C04 (validity), C08 (slot-wise shift): every        *)
(* constructor / setter / sort / shift history of a container of N slots   *)
(* over a small word alphabet.  s_arr is the container as the transcribed  *)
(* operations manipulate it, s_model a plain array receiving the same      *)
(* writes.                                                                 *)
(***************************************************************************)
EXTENDS Containers

CONSTANTS N, Small
AceS == WordOf(12, 3)
KingD == WordOf(11, 1)
DeuceC == WordOf(0, 0)
Alphabet == IF Small THEN {Blank, AceS, KingD, FlagPair(KingD), AllOnes}
            ELSE {Blank, AceS, KingD, DeuceC, FlagPair(KingD), AllOnes, <<0, 23>>}

VARIABLES s_arr, s_model, s_last
vars == <<s_arr, s_model, s_last>>
Init == /\ s_arr = [i \in 1..N |-> Blank] /\ s_model = s_arr /\ s_last = "default"
Set(i, w) == /\ s_arr' = SetSlot(s_arr, i, w) /\ s_model' = [s_model EXCEPT ![i + 1] = w] /\ s_last' = "set"
SortIt == /\ s_arr' = SortDesc(s_arr) /\ s_model' = SortDesc(s_model) /\ s_last' = "sort"
(* shifting is checked as an invariant of every state (ShiftSlotwise) rather than taken as a step: *)
(* shifted non-card words would leave the alphabet and multiply the states without adding behaviour *)
Next == (\E i \in 0..(N - 1), w \in Alphabet : Set(i, w)) \/ SortIt
Spec == Init /\ [][Next]_vars

Agree == s_arr = s_model                                                       \* C19
SetTouchesOneSlot == [][\A i \in 0..(N - 1), w \in Alphabet :
                         Set(i, w) => \A k \in 1..N : k # i + 1 => s_arr'[k] = s_arr[k]]_vars
ValidityAgrees == ValidAsWritten(s_arr) = ValidSpec(s_arr)                     \* C04
UniqueDeviation == (UniqueAsWritten(s_arr) # PairwiseDistinct(s_arr)) => (N >= 6 /\ \E i \in 1..N : s_arr[i] = AllOnes)
SortLaws == LET q == SortDesc(s_arr) IN                                        \* C11
            /\ IsNonIncreasing(q) /\ SameMultiset(q, s_arr) /\ SortDesc(q) = q
            /\ (s_last = "sort" => IsNonIncreasing(s_arr))
ShiftSlotwise == \A i \in 1..N : ShiftHand(s_arr)[i] = ShiftWord(s_arr[i])     \* C08
                   /\ (IsCardWord(s_arr[i]) => ShiftHand(s_arr)[i] = ShiftCardSpec(s_arr[i]))
=============================================================================
