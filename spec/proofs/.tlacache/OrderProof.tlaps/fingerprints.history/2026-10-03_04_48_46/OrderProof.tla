----------------------------- MODULE OrderProof -----------------------------
(***************************************************************************)
(* C07 at the level of the specification, for ALL natural-number values    *)
(* (TLC's MC_Order checks a boundary-complete set of 24 values; the replay *)
(* checks all 65,536^2 pairs of the real code): the comparison transcribed *)
(* in HandRankSpec!CmpV ("fixed") embeds into the integers through Key, so *)
(* it is a total order consistent with equality, in which every invalid    *)
(* rank is below every valid one and a stronger (smaller) valid value is   *)
(* greater.  Checked by TLAPS:   tlapm -I .. --threads 8 OrderProof.tla          *)
(***************************************************************************)
EXTENDS OrderDefs, TLAPS

ASSUME NNat == N \in Nat

THEOREM Embeds ==
    ASSUME NEW a \in Nat, NEW b \in Nat
    PROVE  /\ (Cmp(a, b) = "Less") <=> (Key(a) < Key(b))
           /\ (Cmp(a, b) = "Equal") <=> (Key(a) = Key(b))
           /\ (Cmp(a, b) = "Greater") <=> (Key(a) > Key(b))
           /\ Cmp(a, b) \in {"Less", "Equal", "Greater"}
BY NNat DEF Cmp, Key, IsInv

THEOREM KeyInt == ASSUME NEW a \in Nat PROVE Key(a) \in Int
BY NNat DEF Key, IsInv

THEOREM KeyInjective ==
    ASSUME NEW a \in Nat, NEW b \in Nat, Key(a) = Key(b)
    PROVE  a = b
BY NNat DEF Key, IsInv

THEOREM EqualIffSame ==
    ASSUME NEW a \in Nat, NEW b \in Nat
    PROVE  (Cmp(a, b) = "Equal") <=> (a = b)
BY Embeds, KeyInjective

THEOREM Antisymmetric ==
    ASSUME NEW a \in Nat, NEW b \in Nat
    PROVE  (Cmp(a, b) = "Less") <=> (Cmp(b, a) = "Greater")
BY Embeds

THEOREM Transitive ==
    ASSUME NEW a \in Nat, NEW b \in Nat, NEW c \in Nat,
           Cmp(a, b) # "Greater", Cmp(b, c) # "Greater"
    PROVE  Cmp(a, c) # "Greater"
<1>1. Key(a) \in Int /\ Key(b) \in Int /\ Key(c) \in Int  BY KeyInt
<1>2. ~(Key(a) > Key(b))  BY Embeds
<1>3. ~(Key(b) > Key(c))  BY Embeds
<1>4. ~(Key(a) > Key(c))  BY <1>1, <1>2, <1>3
<1> QED  BY <1>4, Embeds

THEOREM InvalidLowest ==
    ASSUME NEW a \in Nat, NEW b \in Nat, IsInv(a), ~IsInv(b)
    PROVE  Cmp(a, b) = "Less"
BY NNat DEF Cmp, IsInv

THEOREM StrongerGreater ==
    ASSUME NEW a \in Nat, NEW b \in Nat, ~IsInv(a), ~IsInv(b), a < b
    PROVE  Cmp(a, b) = "Greater"
BY NNat DEF Cmp, IsInv
=============================================================================
