----------------------------- MODULE SearchGen ------------------------------
(***************************************************************************)
(* The product search of ckc-rs (Five::find_in_products, as repaired) over *)
(* an ARBITRARY strictly increasing table of length 1..MaxLen and an        *)
(* arbitrary integer key, for Apalache.  TLC (MC_Search) explores the loop *)
(* on the one shipped table; this module shows that the loop's safety does *)
(* not depend on the table's contents: for every sorted table and every    *)
(* key it never indexes out of range, never subtracts below zero, and      *)
(* returns the index of the key, or 0 when the key is absent.              *)
(*                                                                         *)
(*   apalache-mc check --cinit=ConstInit --inv=Safe --length=6 SearchGen.tla          *)
(*   apalache-mc check --cinit=ConstInit --inv=Terminates --length=7 SearchGen.tla    *)
(*   apalache-mc check --cinit=ConstInitOriginal --inv=Safe --length=6 ... must FAIL  *)
(***************************************************************************)
EXTENDS Integers, Sequences, Apalache

CONSTANTS
    \* @type: Int;
    Len0,
    \* @type: Int -> Int;
    Table,
    \* @type: Int;
    Key,
    \* @type: Bool;
    Repaired

MaxLen == 8
Idx == 0..7            \* Apalache needs constant ranges; only the first Len0 cells are the table

\* the table: a strictly increasing function on 0..Len0-1, any integers
ConstInitBase ==
    /\ Len0 \in 1..MaxLen
    /\ Key \in Int
    /\ Table = Gen(MaxLen)
    /\ DOMAIN Table = Idx
    /\ \A i \in Idx : (i + 1 < Len0) => Table[i] < Table[i + 1]

ConstInit == ConstInitBase /\ Repaired = TRUE
\* the pinned tree's loop (no guard on mid = 0): Apalache must find the unsigned underflow
ConstInitOriginal == ConstInitBase /\ Repaired = FALSE

VARIABLES
    \* @type: Int;
    low,
    \* @type: Int;
    high,
    \* @type: Str;
    pc,
    \* @type: Int;
    res,
    \* @type: Int;
    iters

Init == low = 0 /\ high = Len0 - 1 /\ pc = "loop" /\ res = 0 /\ iters = 0

Mid == (high + low) \div 2

Step ==
    /\ pc = "loop"
    /\ iters' = iters + 1
    /\ IF ~(low <= high) THEN pc' = "done" /\ res' = 0 /\ UNCHANGED <<low, high>>
       ELSE IF Mid > Len0 - 1 \/ Mid < 0 THEN pc' = "panic" /\ UNCHANGED <<low, high, res>>
       ELSE IF Key < Table[Mid] THEN
              IF Mid = 0 THEN
                   IF Repaired THEN pc' = "done" /\ res' = 0 /\ UNCHANGED <<low, high>>  \* the repaired guard
                   ELSE pc' = "panic" /\ UNCHANGED <<low, high, res>>                  \* usize underflow of mid - 1
              ELSE high' = Mid - 1 /\ UNCHANGED <<low, pc, res>>
       ELSE IF Key > Table[Mid] THEN low' = Mid + 1 /\ UNCHANGED <<high, pc, res>>
       ELSE pc' = "done" /\ res' = Mid /\ UNCHANGED <<low, high>>
Stutter == pc # "loop" /\ UNCHANGED <<low, high, pc, res, iters>>
Next == Step \/ Stutter

InTable == \E i \in Idx : i < Len0 /\ Table[i] = Key
Safe ==
    /\ pc # "panic"
    /\ low >= 0 /\ high >= -1 /\ high <= Len0 - 1 /\ low <= Len0
    /\ pc = "done" => (IF InTable THEN Table[res] = Key ELSE res = 0)
    /\ (pc = "loop" /\ InTable) => \E i \in Idx : i >= low /\ i <= high /\ Table[i] = Key   \* the key stays inside the window
\* with MaxLen = 8 the loop is done after at most 5 iterations
Terminates == iters >= 5 => pc # "loop"
=============================================================================
