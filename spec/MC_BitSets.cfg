SPECIFICATION Spec
INVARIANT SetLaws
INVARIANT PeelLaws
INVARIANT PeelOrder
INVARIANT TwoLaws
CHECK_DEADLOCK FALSE
