SPECIFICATION Spec
CONSTANT Rotations = {0, 2, 3}
CONSTANT Lanes = 64
CONSTANT SVariant = "fixed"
INVARIANT InvBijection
INVARIANT InvRefine
INVARIANT InvIntermediate
INVARIANT InvPredicates
INVARIANT InvNames
CHECK_DEADLOCK FALSE
