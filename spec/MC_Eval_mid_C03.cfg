SPECIFICATION Spec
CONSTANT DeckName = "mid"
INVARIANT WitnessOk
CHECK_DEADLOCK FALSE
