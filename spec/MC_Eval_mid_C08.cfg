SPECIFICATION Spec
CONSTANT DeckName = "mid"
INVARIANT SuitBlind
CHECK_DEADLOCK FALSE
