------------------------------ MODULE BitSets -------------------------------
(***************************************************************************)
(* 64-bit card sets (BinaryCard).  A set is the sequence of its four       *)
(* 16-bit limbs; its meaning is the set of bit positions 0..63 that are    *)
(* on.  Bits 0..51 are cards (bit 51 = first deck card), 52..63 overflow.  *)
(***************************************************************************)
EXTENDS CkcDeck

CardBits == 0..51
OverflowBitsSet == 52..63
AllLimbs == <<15, 65535, 65535, 65535>>
OverflowLimbs == <<65520, 0, 0, 0>>

WordOfBit(b) == DeckWord(51 - b)

(* word -> set and back                                                    *)
FromCkc(w) == IF IsCardWord(w) THEN LimbsOfBit(BitOfCard(CardRankOf(w), CardSuitOf(w))) ELSE ZeroLimbs
ToCkc(x) == LET S == BitSetOfLimbs(x) IN
            IF Cardinality(S) = 1 /\ S \subseteq CardBits THEN WordOfBit(CHOOSE b \in S : TRUE) ELSE Blank

RECURSIVE FromHand(_)
FromHand(h) == IF h = <<>> THEN ZeroLimbs ELSE LOr(FromCkc(Head(h)), FromHand(Tail(h)))
(* what C15 says about it: exactly the distinct real cards among the slots *)
FromHandSpec(h) == {BitOfCard(RankOfCard(h[i]), SuitOfCard(h[i])) : i \in {j \in 1..Len(h) : IsCardWord(h[j])}}

FoldIn(x, y) == LOr(x, y)
Has(x, c) == LAnd(x, c) = c
Count(x) == Cardinality(BitSetOfLimbs(x))
IsSingle(x) == Count(x) = 1
IsValidSet(x) == x # ZeroLimbs /\ Count(LAnd(x, OverflowLimbs)) < 1

(* peel: scan the deck from the first card down, clear and return the      *)
(* first member found; blank and no change when no card bit is on.         *)
Peel(x) == LET S == BitSetOfLimbs(x) \cap CardBits IN
           IF S = {} THEN [card |-> ZeroLimbs, rest |-> x]
           ELSE LET b == SetMax(S) IN [card |-> LimbsOfBit(b), rest |-> LXor(x, LimbsOfBit(b))]

(* Two::try_from(BinaryCard) as the code does it: [kind, cards].           *)
TwoFromBits(x) ==
    LET n == Count(x) IN
    IF n <= 1 THEN [kind |-> "NotEnoughCards", cards |-> <<>>]
    ELSE IF n = 2 THEN
         LET p1 == Peel(x)
             p2 == Peel(p1.rest)
             a == ToCkc(p1.card)
             b == ToCkc(p2.card) IN
         IF a # b /\ IsCardWord(a) /\ IsCardWord(b) THEN [kind |-> "ok", cards |-> <<a, b>>]
         ELSE [kind |-> "InvalidBinaryFormat", cards |-> <<>>]
    ELSE [kind |-> "TooManyCards", cards |-> <<>>]
(* and as C16 states it                                                    *)
TwoFromBitsSpec(x) ==
    LET S == BitSetOfLimbs(x) IN
    IF Cardinality(S) < 2 THEN [kind |-> "NotEnoughCards", cards |-> <<>>]
    ELSE IF Cardinality(S) > 2 THEN [kind |-> "TooManyCards", cards |-> <<>>]
    ELSE IF S \subseteq CardBits THEN [kind |-> "ok", cards |-> <<WordOfBit(SetMax(S)), WordOfBit(SetMin(S))>>]
    ELSE [kind |-> "InvalidBinaryFormat", cards |-> <<>>]
=============================================================================
