----------------------------- MODULE MC_BitSets -----------------------------
(***************************************************************************)
(* C15, C16: every fold / peel history of a card set over a universe of    *)
(* bit positions that contains both ends of the card range, a suit         *)
(* boundary, the first overflow bit and the top bit.                       *)
(***************************************************************************)
EXTENDS BitSets

U == {0, 1, 2, 12, 13, 50, 51, 52, 63}

VARIABLES s_x, s_peeled
vars == <<s_x, s_peeled>>
Init == s_x = ZeroLimbs /\ s_peeled = <<>>
Fold(b) == s_x' = FoldIn(s_x, LimbsOfBit(b)) /\ s_peeled' = <<>>
PeelIt == LET p == Peel(s_x) IN s_x' = p.rest /\ s_peeled' = Append(s_peeled, p.card) /\ Len(s_peeled) < 9
Next == (\E b \in U : Fold(b)) \/ PeelIt
Spec == Init /\ [][Next]_vars

S == BitSetOfLimbs(s_x)
SetLaws == /\ Count(s_x) = Cardinality(S)
           /\ IsValidSet(s_x) = (S # {} /\ S \subseteq CardBits)
           /\ IsSingle(s_x) = (Cardinality(S) = 1)
           /\ \A b \in U : /\ Has(s_x, LimbsOfBit(b)) = (b \in S)
                           /\ BitSetOfLimbs(FoldIn(s_x, LimbsOfBit(b))) = S \cup {b}
           /\ \A T \in SUBSET {0, 13, 51, 52} : Has(s_x, LimbsOfBitSet(T)) = (T \subseteq S)
           /\ LimbsOfBitSet(S) = s_x
PeelLaws == LET p == Peel(s_x) cardsIn == S \cap CardBits IN
            /\ (cardsIn = {} => p.card = ZeroLimbs /\ p.rest = s_x)
            /\ (cardsIn # {} => p.card = LimbsOfBit(SetMax(cardsIn)) /\ BitSetOfLimbs(p.rest) = S \ {SetMax(cardsIn)})
PeelOrder == \A i \in 1..(Len(s_peeled) - 1) :
               \/ s_peeled[i + 1] = ZeroLimbs
               \/ (s_peeled[i] # ZeroLimbs /\ SetMax(BitSetOfLimbs(s_peeled[i])) > SetMax(BitSetOfLimbs(s_peeled[i + 1])))
TwoLaws == /\ TwoFromBits(s_x) = TwoFromBitsSpec(s_x)                          \* C16
           /\ (TwoFromBits(s_x).kind = "ok" => FromHand(TwoFromBits(s_x).cards) = s_x)
           /\ (TwoFromBits(s_x).kind = "ok") = (Cardinality(S) = 2 /\ S \subseteq CardBits)
=============================================================================
