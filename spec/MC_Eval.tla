------------------------------ MODULE MC_Eval -------------------------------
(***************************************************************************)
(* C02, C03, C08, C09 at the model level: every five-, six- and seven-card *)
(* hand of a reduced deck that still contains every category (straight     *)
(* flush, the wheel, quads, ...), with dealing as the transition.  The     *)
(* value is computed by the implementation-shaped best-of loop over words  *)
(* (in two slot orders) and compared with Best (minimum over five-card     *)
(* subsets, by the rules) and with Direct (rule-based, no subsets).        *)
(***************************************************************************)
EXTENDS CactusKev, CkcDeck

CONSTANT DeckName
LowRanks == {12, 4, 3, 2, 1, 0}                                    \* A 6 5 4 3 2
DeckSmall == (LowRanks \X {3, 2}) \cup {<<12, 1>>, <<12, 0>>}       \* 14 cards
DeckMid == (LowRanks \X {3, 2}) \cup ({12, 1, 0} \X {1, 0})         \* 18 cards
DeckBig == LowRanks \X Suits                                        \* 24 cards
TheDeck == CASE DeckName = "small" -> DeckSmall [] DeckName = "mid" -> DeckMid [] DeckName = "big" -> DeckBig

VARIABLE s_cards
Init == s_cards \in kSubset(5, TheDeck)
Deal(x) == x \notin s_cards /\ Cardinality(s_cards) < 7 /\ s_cards' = s_cards \cup {x}
Next == \E x \in TheDeck : Deal(x)
Spec == Init /\ [][Next]_s_cards

WordsDesc(cs) == SortDescW(SetToSeq({WordOf(p[1], p[2]) : p \in cs}))
RowsOf(n) == IF n = 6 THEN Comb65 ELSE Comb75
Model(hw) == RankNV(hw, RowsOf(Len(hw)), "fixed", "checked")
V(cs) == Model(WordsDesc(cs)).value
Hd == WordsDesc(s_cards)
Hr == Reverse(Hd)
Hrot == SubSeq(Hd, 3, Len(Hd)) \o SubSeq(Hd, 1, 2)

ValueAgree == LET b == Best(s_cards) IN                                        \* C02
              /\ DirectValue(s_cards) = b
              /\ Model(Hd).value = b /\ Model(Hr).value = b /\ Model(Hrot).value = b
WitnessGood(hw) == LET m == Model(hw) wit == m.witness IN                      \* C03
                   /\ Len(wit) = 5
                   /\ (Len(hw) = 5 => wit = hw)
                   /\ (Len(hw) > 5 => \A i \in 1..4 : WGt(wit[i], wit[i + 1]))
                   /\ \A i \in 1..5 : \E j \in 1..Len(hw) : hw[j] = wit[i]
                   /\ Rank5W(wit) = m.value
                   /\ ValueOfCards({<<CardRankOf(wit[i]), CardSuitOf(wit[i])>> : i \in 1..5}) = m.value
WitnessOk == WitnessGood(Hd) /\ WitnessGood(Hr) /\ WitnessGood(Hrot)
Relabel(hw, sigma) == [i \in 1..Len(hw) |-> WordOf(CardRankOf(hw[i]), sigma[CardSuitOf(hw[i]) + 1])]
SuitBlind == /\ Model([i \in 1..Len(Hd) |-> ShiftWord(Hd[i])]).value = Model(Hd).value   \* C08
             /\ \A sigma \in {<<1, 0, 3, 2>>, <<3, 2, 1, 0>>, <<2, 3, 0, 1>>, <<0, 2, 1, 3>>} :
                  Model(Relabel(Hd, sigma)).value = Model(Hd).value
MinOfSubHands == Cardinality(s_cards) > 5 =>                                     \* C09
                   V(s_cards) = SetMin({V(s_cards \ {x}) : x \in s_cards})
DealNeverWeakens == [][V(s_cards') <= V(s_cards)]_s_cards                        \* C09
=============================================================================
