SPECIFICATION Spec
CONSTANT DeckName = "small"
INVARIANT SuitBlind
CHECK_DEADLOCK FALSE
