----------------------------- MODULE MC_Search ------------------------------
(***************************************************************************)
(* The product search as a state machine: one step per loop iteration,     *)
(* from every key class.  Keys: all 8,568 products of five values from     *)
(* {0, 2, 3, ..., 41} (every key the evaluator can form from cards and     *)
(* blanks), every table entry and entry +- 1 (a representative inside      *)
(* every gap), 0, 1, 47, 48 and BIGKEY (above every entry).  C05.          *)
(***************************************************************************)
EXTENDS CactusKev

CONSTANTS Variant, Mode

PrimeOrZero == {0} \cup {PrimeOf[i] : i \in 1..13}
FiveProducts == {a * b * e * f * g : <<a, b, e, f, g>> \in
                   {q \in PrimeOrZero \X PrimeOrZero \X PrimeOrZero \X PrimeOrZero \X PrimeOrZero :
                      q[1] <= q[2] /\ q[2] <= q[3] /\ q[3] <= q[4] /\ q[4] <= q[5]}}
Neighbours == UNION {{ProductsTable[i] - 1, ProductsTable[i], ProductsTable[i] + 1} : i \in 1..NProducts}
Keys == FiveProducts \cup Neighbours \cup {0, 1, 47, 48, BIGKEY}
InTable == {ProductsTable[i] : i \in 1..NProducts}

VARIABLE s_st
Init == s_st \in {SearchInit(k) : k \in Keys}
Next == s_st.pc = "loop" /\ s_st' = SearchStep(s_st, Variant, Mode)
Spec == Init /\ [][Next]_s_st

NoPanic == s_st.pc # "panic"
Bounds == s_st.pc = "loop" => (s_st.low >= 0 /\ s_st.low <= NProducts /\ s_st.high >= 0 /\ s_st.high <= NProducts - 1)
Terminates == s_st.iters <= 13
Correct == s_st.pc = "done" =>
             /\ (s_st.key \in InTable) => ProductsTable[s_st.res + 1] = s_st.key
             /\ (s_st.key \notin InTable) => s_st.res = 0
=============================================================================
