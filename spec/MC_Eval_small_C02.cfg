SPECIFICATION Spec
CONSTANT DeckName = "small"
INVARIANT ValueAgree
CHECK_DEADLOCK FALSE
