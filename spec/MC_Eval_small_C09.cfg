SPECIFICATION Spec
CONSTANT DeckName = "small"
INVARIANT MinOfSubHands
PROPERTY DealNeverWeakens
CHECK_DEADLOCK FALSE
