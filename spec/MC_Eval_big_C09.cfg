SPECIFICATION Spec
CONSTANT DeckName = "big"
INVARIANT MinOfSubHands
PROPERTY DealNeverWeakens
CHECK_DEADLOCK FALSE
