------------------------------ MODULE CkcBase -------------------------------
(* Shared vocabulary: ranks 0 (deuce) .. 12 (ace); suits 0 clubs,         *)
(* 1 diamonds, 2 hearts, 3 spades; -1 stands for the BLANK enum members.  *)
EXTENDS Naturals, Integers, Sequences, FiniteSets
Ranks == 0..12
Suits == 0..3
NoRank == -1
NoSuit == -1

(* Own max / min (FiniteSetsExt!Max is not pre-evaluated by TLC's constant processing). *)
SetMax(S) == CHOOSE x \in S : \A y \in S : x >= y
SetMin(S) == CHOOSE x \in S : \A y \in S : x <= y
=============================================================================
