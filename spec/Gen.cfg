INIT Init
NEXT Next
