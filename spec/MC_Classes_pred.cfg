SPECIFICATION Spec
CONSTANT Rotations = {0, 2}
CONSTANT Lanes = 64
CONSTANT SVariant = "fixed"
INVARIANT InvPredicates
CHECK_DEADLOCK FALSE
