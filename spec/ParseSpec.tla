------------------------------ MODULE ParseSpec -----------------------------
(***************************************************************************)
(* Text parsing.  Characters are Unicode code points; a string is a        *)
(* sequence of code points.                                                *)
(***************************************************************************)
EXTENDS CkcWords, CkcDeck

RankSymbols == { <<65, 12>>, <<97, 12>>, <<75, 11>>, <<107, 11>>, <<81, 10>>, <<113, 10>>,
                 <<74, 9>>, <<106, 9>>, <<84, 8>>, <<116, 8>>, <<48, 8>>,
                 <<57, 7>>, <<56, 6>>, <<55, 5>>, <<54, 4>>, <<53, 3>>, <<52, 2>>, <<51, 1>>, <<50, 0>> }
SuitSymbols == { <<9828, 3>>, <<9824, 3>>, <<83, 3>>, <<115, 3>>,
                 <<9825, 2>>, <<9829, 2>>, <<72, 2>>, <<104, 2>>,
                 <<9826, 1>>, <<9830, 1>>, <<68, 1>>, <<100, 1>>,
                 <<9831, 0>>, <<9827, 0>>, <<67, 0>>, <<99, 0>> }
RankSym(cp) == IF \E p \in RankSymbols : p[1] = cp THEN (CHOOSE p \in RankSymbols : p[1] = cp)[2] ELSE NoRank
SuitSym(cp) == IF \E p \in SuitSymbols : p[1] = cp THEN (CHOOSE p \in SuitSymbols : p[1] = cp)[2] ELSE NoSuit

(* Unicode White_Space (what str::split_whitespace splits on).             *)
WhiteSpace == (9..13) \cup {32, 133, 160, 5760} \cup (8192..8202) \cup {8232, 8233, 8239, 8287, 12288}

(* get_rank_and_suit / from_index: the first two characters decide; fewer  *)
(* than two characters is blank; a tail is ignored.                        *)
ParseToken(tok) == IF Len(tok) < 2 THEN Blank ELSE Create(RankSym(tok[1]), SuitSym(tok[2]))
ParseTokenSpec(tok) == IF Len(tok) >= 2 /\ RankSym(tok[1]) # NoRank /\ SuitSym(tok[2]) # NoSuit
                       THEN WordOf(RankSym(tok[1]), SuitSym(tok[2])) ELSE Blank

RECURSIVE SplitFrom(_, _, _)
SplitFrom(str, i, cur) ==
    IF i > Len(str) THEN (IF cur = <<>> THEN <<>> ELSE <<cur>>)
    ELSE IF str[i] \in WhiteSpace THEN (IF cur = <<>> THEN <<>> ELSE <<cur>>) \o SplitFrom(str, i + 1, <<>>)
    ELSE SplitFrom(str, i + 1, Append(cur, str[i]))
Split(str) == SplitFrom(str, 1, <<>>)

InvalidIndex == "InvalidIndex"
ParseHand(n, str) == LET toks == Split(str) IN
                     IF Len(toks) < n THEN [kind |-> InvalidIndex, words |-> <<>>]
                     ELSE [kind |-> "ok", words |-> [i \in 1..n |-> ParseToken(toks[i])]]
(* BinaryCard::from_index: every token is folded in.                       *)
ParseSetBits(str) == LET toks == Split(str) IN
                     {BitOfCard(RankOfCard(ParseToken(toks[i])), SuitOfCard(ParseToken(toks[i]))) :
                        i \in {j \in 1..Len(toks) : IsCardWord(ParseToken(toks[j]))}}

RenderGlyph(r, s)  == <<RankChars[r + 1], SuitGlyphs[s + 1]>>
RenderLetter(r, s) == <<RankChars[r + 1], SuitLetters[s + 1]>>

SymbolsJson == [ rank_syms |-> SetToSeq(RankSymbols), suit_syms |-> SetToSeq(SuitSymbols),
                 whitespace |-> SetToSeq(WhiteSpace) ]
=============================================================================
