----------------------------- MODULE MC_Classes -----------------------------
(***************************************************************************)
(* One initial state per poker class (7,462); transitions change the suit  *)
(* assignment and the slot order of the representative hand.  Checks that  *)
(* the ordinal is a bijection anchored to the published counts (C01), that *)
(* the implementation-shaped evaluator with the rule-derived tables        *)
(* refines it in every suit pattern and order explored (C01), that names   *)
(* and categories label contiguous ranges (C06) and that the predicates,   *)
(* including the padding trick, agree with the category (C13).             *)
(***************************************************************************)
EXTENDS CactusKev, HandRankSpec

CONSTANTS Rotations,          \* which rotations of the slot order to explore, e.g. {0, 2}
          Lanes,              \* number of parallel walks over the classes
          SVariant            \* "fixed" or "original" straight predicate (the latter must be refuted)

SuitVectors == { <<0, 1, 2, 3, 0>>, <<3, 2, 1, 0, 1>>, <<0, 0, 0, 0, 1>>, <<2, 2, 1, 2, 2>>, <<1, 3, 1, 3, 1>>,
                 <<0, 0, 0, 0, 0>>, <<1, 1, 1, 1, 1>>, <<2, 2, 2, 2, 2>>, <<3, 3, 3, 3, 3>> }
AllSame(sv) == \A i \in 1..5 : sv[i] = sv[1]
FitsClass(c, sv) ==
    /\ c[2] = AllSame(sv)
    /\ \A i, j \in 1..5 : i # j => <<c[1][i], sv[i]>> # <<c[1][j], sv[j]>>
HandOf(c, sv, rot) == [k \in 1..5 |-> LET i == ((k - 1 + rot) % 5) + 1 IN WordOf(c[1][i], sv[i])]
CardsOf(c, sv) == {<<c[1][i], sv[i]>> : i \in 1..5}

VARIABLES s_v, s_sv, s_rot
vars == <<s_v, s_sv, s_rot>>
(* Lanes of classes: the walk v -> v + Lanes visits every class; the first  *)
(* suit vector that fits starts it, Resuit reaches the others.             *)
Fitting(x) == {q \in SuitVectors : FitsClass(ClassAt(x), q)}
Init == /\ s_v \in 1..Lanes
        /\ s_sv \in Fitting(s_v)
        /\ s_rot \in Rotations
NextClass == /\ s_v + Lanes <= NClasses
             /\ s_v' = s_v + Lanes
             /\ s_sv' \in Fitting(s_v + Lanes)
             /\ UNCHANGED s_rot
Resuit == /\ s_sv' \in Fitting(s_v) /\ UNCHANGED <<s_v, s_rot>>
Rotate == /\ s_rot' \in Rotations /\ UNCHANGED <<s_v, s_sv>>
Next == NextClass \/ Resuit \/ Rotate
Spec == Init /\ [][Next]_vars

TheClass == ClassAt(s_v)
TheHand == HandOf(TheClass, s_sv, s_rot)

InvBijection == Ordinal(TheClass) = s_v /\ ValueOfCards(CardsOf(TheClass, s_sv)) = s_v /\ ClassOfCards(CardsOf(TheClass, s_sv)) = TheClass
InvRefine == Rank5W(TheHand) = s_v
InvIntermediate ==
    /\ OrRankBits(TheHand) = FoldLeft(LAMBDA a, r : a + (IF (a \div 2^r) % 2 = 1 THEN 0 ELSE 2^r), 0, TheClass[1])
    /\ IsFlushW(TheHand) = TheClass[2]
    /\ MultiplyPrimes(TheHand) = ProductOfTuple(TheClass[1])
    /\ (~TheClass[2] /\ ~Distinct(TheClass[1])) => (ProductsTable[Find(MultiplyPrimes(TheHand)) + 1] = MultiplyPrimes(TheHand))
InvPredicates ==
    /\ IsStraightWV(TheHand, SVariant) = (Category(TheClass) \in {StraightFlush, Straight})
    /\ (IsStraightWV(TheHand, SVariant) /\ IsFlushW(TheHand)) = (Category(TheClass) = StraightFlush)
    /\ IsWheelW(TheHand) = (TheClass[1] = Wheel)
    /\ IsStraightWV(TheHand, SVariant) = IsStraightCards(CardsOf(TheClass, s_sv))
InvNames ==
    /\ NameOfValue(s_v) = CategoryName(Category(TheClass)) /\ ClassOfValue(s_v) = ClassName(TheClass)
    /\ IsConsistent(FromValue(s_v)) /\ ~IsInvalid(FromValue(s_v))
    /\ (s_v > 1 => NamePos(s_v) \in {NamePos(s_v - 1), NamePos(s_v - 1) + 1})
    /\ (s_v > 1 => ClassPos(s_v) \in {ClassPos(s_v - 1), ClassPos(s_v - 1) + 1})

(* Facts about the whole order, evaluated once.                            *)
ASSUME NClasses = 7462
ASSUME \A i \in 1..(NClasses - 1) : Sorted[i][1] > Sorted[i + 1][1]
ASSUME [k \in 1..9 |-> Cardinality({i \in 1..NClasses : Category(Sorted[i][2]) = k - 1})]
          = <<10, 156, 156, 1277, 10, 858, 858, 2860, 1277>>
ASSUME ClassAt(1) = <<<<12, 11, 10, 9, 8>>, TRUE>> /\ ClassAt(7462) = <<<<5, 3, 2, 1, 0>>, FALSE>>
ASSUME ClassAt(10) = <<Wheel, TRUE>> /\ ClassAt(1609) = <<Wheel, FALSE>> /\ ClassAt(1600) = <<<<12, 11, 10, 9, 8>>, FALSE>>
ASSUME Cardinality(ClassStarts) = 309 /\ Cardinality({ClassOfValue(s) : s \in ClassStarts}) = 309
ASSUME Cardinality(NameStarts) = 9 /\ Cardinality({NameOfValue(s) : s \in NameStarts}) = 9
ASSUME \A s \in {17, 350, 3000, 7000} : OrdinalByCounting(ClassAt(s)) = s /\ \A d \in {ClassAt(s + 1), ClassAt(s - 1)} : BeatsByRules(ClassAt(s), d) = (Ordinal(d) > s)
ASSUME NProducts = 4888 /\ \A i \in 1..(NProducts - 1) : ProductsTable[i] < ProductsTable[i + 1]
ASSUME \A x \in {0, 7463, 65535} : IsInvalid(FromValue(x)) /\ IsConsistent(FromValue(x))
=============================================================================
