SPECIFICATION Spec
CONSTANT MaxLen = 4
INVARIANT TokenRule
INVARIANT SplitRule
INVARIANT HandRule
INVARIANT SetRule
CHECK_DEADLOCK FALSE
