SPECIFICATION Spec
CONSTANT Variant = "fixed"
CONSTANT Mode = "wrapping"
INVARIANT NoPanic
INVARIANT Bounds
INVARIANT Terminates
INVARIANT Correct
CHECK_DEADLOCK FALSE
