#!/usr/bin/env python3
"""Automated mutation run (not part of any registered check; never touches /repo's working tree).

Generates single-token mutants of the non-test code of ckc-rs (relational / arithmetic / bitwise / shift
operators, integer literals +-1, booleans, && / ||, dropped `!`), applies each in a scratch worktree of
/repo HEAD, and asks two questions:
  1. does the repository's own suite still pass?  (if not: killed by the suite, uninteresting)
  2. if it does: does any replay of the harness (./check's stage 2, release build, then the overflow-checked
     build) report a violation?
Survivors of both are either equivalent mutants (no behaviour covered by a property changes) or gaps.

usage: mutate.py --n 150 --seed 1 --out /verif/work/mutation
"""
import argparse, json, os, random, re, shutil, subprocess, sys, time

REPO = "/repo"
VERIF = "/verif"
IDS = ["C%02d" % i for i in range(1, 21)]
ORDER = {
    "cards/five.rs": ["C01", "C13", "C05", "C03", "C06"],
    "cards/six.rs": ["C02", "C03", "C09", "C19", "C08", "C04", "C11"],
    "cards/seven.rs": ["C02", "C03", "C09", "C19", "C08", "C04", "C11"],
    "cards/two.rs": ["C17", "C16", "C18", "C19", "C12", "C11"],
    "cards/three.rs": ["C19", "C11", "C12", "C04", "C15", "C08"],
    "cards/four.rs": ["C19", "C11", "C12", "C04", "C15", "C08"],
    "cards/mod.rs": ["C04", "C11", "C19"],
    "cards/binary_card.rs": ["C14", "C15", "C16"],
    "hand_rank.rs": ["C06", "C07", "C01"],
    "lib.rs": ["C10", "C12", "C20", "C08", "C14", "C17", "C01"],
    "deck.rs": ["C18", "C10", "C11"],
    "parse.rs": ["C12", "C15"],
}
CHEAP_FIRST = ["C07", "C17", "C18", "C20", "C10", "C16", "C19", "C15", "C12", "C13", "C06", "C08", "C14", "C11", "C01", "C05", "C09", "C03", "C04", "C02"]


def code_lines(path):
    """(line index, text) of lines outside #[cfg(test)] modules and comments."""
    lines = open(path).read().split("\n")
    skip = [False] * len(lines)
    i = 0
    while i < len(lines):
        if lines[i].strip().startswith("#[cfg(test)]"):
            j = i
            depth = 0
            opened = False
            while j < len(lines):
                depth += lines[j].count("{") - lines[j].count("}")
                if "{" in lines[j]:
                    opened = True
                skip[j] = True
                if opened and depth <= 0:
                    break
                j += 1
            i = j + 1
        else:
            i += 1
    out = []
    for k, l in enumerate(lines):
        st = l.strip()
        if skip[k] or st.startswith("//") or st.startswith("#[") or st.startswith("use ") or not st:
            continue
        out.append((k, l))
    return lines, out


OPS = [
    (r" < ", [" <= "]), (r" <= ", [" < "]), (r" > ", [" >= "]), (r" >= ", [" > "]),
    (r" == ", [" != "]), (r" != ", [" == "]),
    (r" \+ ", [" - "]), (r" - ", [" + "]), (r" \* ", [" + "]), (r" / ", [" * "]), (r" % ", [" / "]),
    (r" << ", [" >> "]), (r" >> ", [" << "]), (r" & ", [" | "]), (r" \| ", [" & "]), (r" \^ ", [" | "]),
    (r" && ", [" || "]), (r" \|\| ", [" && "]),
    (r"\btrue\b", ["false"]), (r"\bfalse\b", ["true"]),
    (r"\+= ", ["-= "]), (r"-= ", ["+= "]), (r"\|= ", ["&= "]), (r"&= ", ["|= "]), (r"\^= ", ["|= "]),
]
LIT = re.compile(r"(?<![\w.])(0x[0-9A-Fa-f_]+|0b[01_]+|\d[\d_]*)(?![\w.])")


def mutants_of(rel, path):
    lines, code = code_lines(path)
    out = []
    for k, l in code:
        body = l.split("//")[0]
        for pat, reps in OPS:
            for m in re.finditer(pat, body):
                for r in reps:
                    out.append((rel, k, m.start(), m.end(), r, "op"))
        for m in re.finditer(r"(?<![\w)\]])!(?=[\w(])", body):
            if not body[m.end():].startswith("="):
                out.append((rel, k, m.start(), m.end(), "", "drop-not"))
        st = body.strip()
        if st.endswith(";") and not st.startswith(("let ", "return", "pub ", "const ", "static ", "type ", "fn ", "}")) and "=>" not in st:
            out.append((rel, k, len(body) - len(body.lstrip()), len(body.rstrip()), "", "del"))
        for a, b in ((".min(", ".max("), (".max(", ".min("), (".rev()", ""), ("wrapping_sub", "wrapping_add"), ("saturating_sub", "saturating_add"),
                     ("trailing_zeros", "leading_zeros"), ("leading_zeros", "trailing_zeros"), ("count_ones", "count_zeros"), (".any(", ".all("), (".all(", ".any("),
                     ("split_whitespace", "split_ascii_whitespace"), ("to_ascii_uppercase", "to_ascii_lowercase")):
            for m in re.finditer(re.escape(a), body):
                out.append((rel, k, m.start(), m.end(), b, "call"))
        for m in LIT.finditer(body):
            t = m.group(1)
            try:
                v = int(t.replace("_", ""), 0)
            except ValueError:
                continue
            for d in (1, -1):
                if v + d < 0:
                    continue
                if t.startswith("0x"):
                    r = hex(v + d)
                elif t.startswith("0b"):
                    r = bin(v + d)
                else:
                    r = str(v + d)
                out.append((rel, k, m.start(1), m.end(1), r, "lit"))
    return out


def run(cmd, cwd=None, timeout=600, env=None):
    # own process group, killed as a whole on timeout (a mutant that loops for ever runs in a grandchild of cargo)
    import signal
    p = subprocess.Popen(cmd, cwd=cwd, stdout=subprocess.PIPE, stderr=subprocess.STDOUT, text=True, env=env, start_new_session=True)
    try:
        out, _ = p.communicate(timeout=timeout)
        return p.returncode, out
    except subprocess.TimeoutExpired:
        try:
            os.killpg(p.pid, signal.SIGKILL)
        except ProcessLookupError:
            pass
        p.communicate()
        return 124, "TIMEOUT"


def main():
    ap = argparse.ArgumentParser()
    ap.add_argument("--n", type=int, default=100)
    ap.add_argument("--seed", type=int, default=1)
    ap.add_argument("--out", default="/verif/work/mutation")
    ap.add_argument("--scratch", default="/tmp/mutation_run")
    ap.add_argument("--retest", default="", help="comma-separated result files: re-run only their suite survivors")
    ap.add_argument("--kinds", default="", help="restrict the non-literal mutants to these kinds (op,drop-not,del,call)")
    ap.add_argument("--lits", type=float, default=0.35, help="fraction of the sample drawn from literal mutants")
    a = ap.parse_args()
    os.makedirs(a.out, exist_ok=True)
    S = a.scratch
    subprocess.run(["git", "-C", REPO, "worktree", "remove", "--force", S + "/wt"], stdout=subprocess.DEVNULL, stderr=subprocess.DEVNULL)
    shutil.rmtree(S, ignore_errors=True)
    os.makedirs(S)
    subprocess.run(["git", "-C", REPO, "worktree", "add", "--detach", S + "/wt", "HEAD"], check=True, stdout=subprocess.DEVNULL, stderr=subprocess.DEVNULL)
    os.makedirs(S + "/harness")
    for f in ("src", "Cargo.toml", "Cargo.lock", ".cargo"):
        src = os.path.join(VERIF, "harness", f)
        (shutil.copytree if os.path.isdir(src) else shutil.copy)(src, os.path.join(S, "harness", f))
    t = open(S + "/harness/Cargo.toml").read().replace('path = "/repo"', 'path = "%s/wt"' % S)
    open(S + "/harness/Cargo.toml", "w").write(t)
    env = dict(os.environ, CARGO_NET_OFFLINE="true")
    try:
        allm = []
        for root, _, files in os.walk(S + "/wt/src"):
            for f in files:
                if f.endswith(".rs"):
                    p = os.path.join(root, f)
                    allm += mutants_of(os.path.relpath(p, S + "/wt/src"), p)
        rng = random.Random(a.seed)
        ops = [m for m in allm if m[5] != "lit"]
        if a.kinds:
            ops = [m for m in ops if m[5] in a.kinds.split(",")]
        lits = [m for m in allm if m[5] == "lit"]
        rng.shuffle(ops)
        rng.shuffle(lits)
        nl = int(a.n * a.lits)
        sample = ops[: a.n - nl] + lits[:nl]
        rng.shuffle(sample)
        if a.retest:
            # only the mutants that survived the repository's suite in earlier runs (re-judged by the current harness)
            want = set()
            for f in a.retest.split(","):
                for l in open(f):
                    j = json.loads(l)
                    if j["suite"] == "survived":
                        want.add((j["file"], j["line"], j["new"]))
            sample = []
            for m in allm:
                rel, k, c0, c1, repl, kind = m
                line = open(os.path.join(S, "wt/src", rel)).read().split("\n")[k]
                if (rel, k + 1, (line[:c0] + repl + line[c1:]).strip()) in want:
                    sample.append(m)
        print("candidate mutants: %d operators, %d literals; sample %d" % (len(ops), len(lits), len(sample)), flush=True)
        # warm builds
        run(["cargo", "test", "--offline", "--lib", "--no-run"], cwd=S + "/wt", env=env, timeout=1200)
        for prof in (["--release"], ["--profile", "checked"]):
            run(["cargo", "build", "--offline"] + prof, cwd=S + "/harness", env=env, timeout=1800)
        res = open(os.path.join(a.out, ("retest_seed%d.jsonl" if a.retest else "results_seed%d.jsonl") % a.seed), "a")
        for n, (rel, k, c0, c1, rep, kind) in enumerate(sample):
            path = os.path.join(S, "wt/src", rel)
            orig = open(path).read()
            lines = orig.split("\n")
            old = lines[k]
            new = old[:c0] + rep + old[c1:]
            lines[k] = new
            open(path, "w").write("\n".join(lines))
            rec = {"file": rel, "line": k + 1, "kind": kind, "old": old.strip(), "new": new.strip()}
            t0 = time.time()
            rc, out = run(["cargo", "test", "--offline", "--lib", "-q"], cwd=S + "/wt", env=env, timeout=400)
            if rc != 0:
                rec["suite"] = "compile-error" if "error[" in out or "error:" in out and "test result" not in out else ("timeout" if rc == 124 else "killed")
            else:
                rec["suite"] = "survived"
                caught = []
                errors = []
                order = ORDER.get(rel, []) + [i for i in CHEAP_FIRST if i not in ORDER.get(rel, [])]
                for prof, flag in (("release", ["--release"]), ("checked", ["--profile", "checked"])):
                    rc, out = run(["cargo", "build", "--offline"] + flag, cwd=S + "/harness", env=env, timeout=1800)
                    if rc != 0:
                        errors.append("harness build failed (%s)" % prof)
                        break
                    exe = os.path.join(S, "harness/target", prof, "ckc-verif-harness")
                    e2 = dict(env)
                    if prof == "checked":
                        e2["VERIF_LOG_LEVEL"] = "trace"
                    for pid in order:
                        o = os.path.join(S, "rep.json")
                        rc, out = run([exe, "replay", pid, "--gen", VERIF + "/gen", "--tier", "quick", "--seed", "1", "--out", o], env=e2, timeout=900)
                        if rc == 1:
                            why = ""
                            try:
                                why = json.load(open(o))["violations"][0].get("why", "")
                            except Exception:
                                pass
                            caught.append({"id": pid, "profile": prof, "why": why})
                            break
                        if rc != 0:
                            errors.append("%s %s rc=%d %s" % (pid, prof, rc, out[-200:]))
                            if rc == 124:
                                break
                    if caught or errors:
                        break
                rec["caught"] = caught
                rec["errors"] = errors
            rec["secs"] = round(time.time() - t0, 1)
            open(path, "w").write(orig)
            res.write(json.dumps(rec) + "\n")
            res.flush()
            print("%3d/%d %-22s %-4s %-8s %s | %s -> %s" % (n + 1, len(sample), "%s:%d" % (rel, k + 1), kind, rec["suite"],
                  (rec.get("caught") or rec.get("errors") or "")[:1], old.strip()[:60], new.strip()[:60]), flush=True)
    finally:
        subprocess.run(["git", "-C", REPO, "worktree", "remove", "--force", S + "/wt"], stdout=subprocess.DEVNULL, stderr=subprocess.DEVNULL)
        shutil.rmtree(S, ignore_errors=True)
        subprocess.run(["git", "-C", REPO, "worktree", "prune"])


if __name__ == "__main__":
    main()
