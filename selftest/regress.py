#!/usr/bin/env python3
"""Regression over everything under seeded/ and the benign refactors (not part of any registered check; never
touches /repo's working tree).

One scratch worktree of /repo HEAD and one scratch copy of the harness per stream; for each change the worktree is
reset, the patch applied, and `./check <ID> quick` run with work / evidence / replay directories under the scratch
area.  Expectation: a seeded change is reported (exit 1) by the check of the property it was written against (or by
the check named in its meta.json `detected_by`), unless meta.json records it as missed; a benign refactor makes
every listed check exit 0.

usage: regress.py --stream K --of N [--only seeded|benign] --out DIR
"""
import argparse, glob, json, os, re, shutil, subprocess, sys

V = "/verif"
BENIGN_IDS = {}
for f, pre in ((V + "/selftest/benign_agents/RESULTS.txt", "ben"),):
    if os.path.exists(f):
        for l in open(f):
            m = re.match(r"ISO ben(C\d\d) (C\d\d) quick", l)
            if m:
                BENIGN_IDS.setdefault(("benign_agents", m.group(1)), []).append(m.group(2))
BENIGN2 = {"C07": "C07 C06", "C20": "C20 C10 C14 C08 C12", "C19": "C19 C11 C04 C02 C03 C08", "C16": "C16 C15 C14 C04 C10",
           "C15": "C15 C14 C16 C12 C10", "C12": "C12 C10 C15 C17 C08", "C14": "C14 C15 C16 C10 C18 C08",
           "C11": "C11 C10 C12 C04 C18 C19 C20", "C18": "C18 C10 C14 C15 C02 C03 C19", "C04": "C04 C01 C02 C03 C05 C11 C19"}
for k, v in BENIGN2.items():
    BENIGN_IDS[("benign_agents2", k)] = v.split()


def jobs(only):
    out = []
    if only and only.startswith("pairs:"):
        # a file of lines "<seeded name> <ID> <ID> ...": those checks against that change
        for l in open(only.split(":", 1)[1]):
            f = l.split()
            if f:
                out.append(("matrix", f[0], V + "/seeded/" + f[0] + "/patch.diff", f[1:], False))
        return out
    if only and only.startswith("matrix:"):
        # every check against each of the named seeded changes: which OTHER checks report it?  (a report by a check
        # whose statement the change does not violate would be a false alarm of that check)
        for name in only.split(":", 1)[1].split(","):
            out.append(("matrix", name, V + "/seeded/" + name + "/patch.diff", ["C%02d" % i for i in range(1, 21)], False))
        return out
    if only in (None, "seeded"):
        for d in sorted(glob.glob(V + "/seeded/*")):
            m = json.load(open(d + "/meta.json"))
            ids = []
            for c in m.get("detected_by", []):
                mm = re.search(r"(C\d\d)", c)
                if mm and mm.group(1) not in ids:
                    ids.append(mm.group(1))
            if m["property"] not in ids:
                ids.append(m["property"])
            out.append(("seeded", os.path.basename(d), d + "/patch.diff", ids, bool(m.get("detected_by"))))
    if only in (None, "benign"):
        out.append(("benign", "benign1", V + "/selftest/benign1/patch.diff", ["C%02d" % i for i in range(1, 21)], False))
        for (folder, k), ids in sorted(BENIGN_IDS.items()):
            out.append(("benign", "%s/%s" % (folder, k), "%s/selftest/%s/%s/patch.diff" % (V, folder, k), ids, False))
    return out


def main():
    ap = argparse.ArgumentParser()
    ap.add_argument("--stream", type=int, default=0)
    ap.add_argument("--of", type=int, default=1)
    ap.add_argument("--only", default=None)
    ap.add_argument("--out", default=V + "/work/regress")
    a = ap.parse_args()
    os.makedirs(a.out, exist_ok=True)
    S = "/tmp/regress.%d" % a.stream
    subprocess.run(["git", "-C", "/repo", "worktree", "remove", "--force", S + "/wt"], stdout=subprocess.DEVNULL, stderr=subprocess.DEVNULL)
    shutil.rmtree(S, ignore_errors=True)
    os.makedirs(S + "/harness")
    subprocess.run(["git", "-C", "/repo", "worktree", "add", "--detach", S + "/wt", "HEAD"], check=True, stdout=subprocess.DEVNULL, stderr=subprocess.DEVNULL)
    for f in ("src", "Cargo.toml", "Cargo.lock", ".cargo"):
        src = os.path.join(V, "harness", f)
        (shutil.copytree if os.path.isdir(src) else shutil.copy)(src, os.path.join(S, "harness", f))
    t = open(S + "/harness/Cargo.toml").read().replace('path = "/repo"', 'path = "%s/wt"' % S)
    open(S + "/harness/Cargo.toml", "w").write(t)
    env = dict(os.environ, VERIF_HARNESS_DIR=S + "/harness", VERIF_WORK_DIR=S + "/work", VERIF_EVIDENCE_DIR=S + "/evidence", VERIF_REPLAYS_DIR=S + "/replays")
    os.makedirs(S + "/work", exist_ok=True)
    log = open(os.path.join(a.out, "stream_%d.log" % a.stream), "a")
    try:
        for n, (kind, name, patch, ids, expect_caught) in enumerate(jobs(a.only)):
            if n % a.of != a.stream:
                continue
            subprocess.run(["git", "-C", S + "/wt", "checkout", "--", "."], stdout=subprocess.DEVNULL)
            subprocess.run(["git", "-C", S + "/wt", "clean", "-fdq", "src"], stdout=subprocess.DEVNULL)
            p = subprocess.run(["git", "-C", S + "/wt", "apply", patch], stdout=subprocess.PIPE, stderr=subprocess.STDOUT, text=True)
            if p.returncode != 0:
                log.write("%s %s APPLY-FAILED %s\n" % (kind, name, p.stdout[:100].replace("\n", " ")))
                log.flush()
                continue
            for pid in ids:
                try:
                    p = subprocess.run(["timeout", "2400", V + "/check", pid, "quick"], cwd=V, env=env, stdout=subprocess.PIPE, stderr=subprocess.STDOUT, text=True)
                    rc, out = p.returncode, p.stdout
                except Exception as e:  # noqa
                    rc, out = 99, str(e)
                why = ""
                if rc != 0:
                    m = re.search(r'"why": "([^"]{0,160})', out)
                    why = m.group(1) if m else (re.findall(r"TOOL-ERROR[^\n]*", out) or [""])[0][:160]
                log.write("%s %s %s exit=%d %s\n" % (kind, name, pid, rc, why))
                log.flush()
    finally:
        subprocess.run(["git", "-C", "/repo", "worktree", "remove", "--force", S + "/wt"], stdout=subprocess.DEVNULL, stderr=subprocess.DEVNULL)
        shutil.rmtree(S, ignore_errors=True)
        subprocess.run(["git", "-C", "/repo", "worktree", "prune"])
        log.write("stream %d finished\n" % a.stream)
        log.flush()


if __name__ == "__main__":
    main()
