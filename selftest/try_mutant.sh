#!/bin/bash
# usage: selftest/try_mutant.sh <dir with patch.diff [demo.rs]> <ID> [more IDs ...]
# 1. confirms the mutant in a scratch worktree outside /repo and /verif: the patch applies, the crate
#    builds, the repository's own suite still passes, the demo fails with the patch and passes without;
# 2. applies the patch to /repo, runs ./check <ID> quick for each ID, and undoes the patch straight away.
# Prints one summary line per step.  Never commits anything to /repo.
set -u
DIR="$(cd "$1" && pwd)"; shift
PATCH="$DIR/patch.diff"
SCR=/tmp/mutcheck.$$
cleanup() { git -C /repo worktree remove --force "$SCR" >/dev/null 2>&1; rm -rf "$SCR"; git -C /repo worktree prune; }
trap cleanup EXIT
if [ -z "${SKIP_CONFIRM:-}" ]; then
  git -C /repo worktree add --detach "$SCR" HEAD >/dev/null 2>&1 || { echo "CONFIRM: cannot create scratch worktree"; exit 2; }
  if [ -f "$DIR/demo.rs" ]; then
    mkdir -p "$SCR/tests"; cp "$DIR/demo.rs" "$SCR/tests/demo.rs"
    (cd "$SCR" && CARGO_TARGET_DIR="$SCR/target" cargo test --offline --test demo >"$SCR/demo_clean.log" 2>&1) && echo "CONFIRM: demo passes on the unchanged code" || echo "CONFIRM: !! demo FAILS on the unchanged code"
  fi
  git -C "$SCR" apply "$PATCH" || { echo "CONFIRM: !! patch does not apply"; exit 2; }
  if [ -f "$DIR/demo.rs" ]; then
    (cd "$SCR" && CARGO_TARGET_DIR="$SCR/target" cargo test --offline --test demo >"$SCR/demo_mut.log" 2>&1) && echo "CONFIRM: !! demo PASSES with the patch" || echo "CONFIRM: demo fails with the patch"
    rm -f "$SCR/tests/demo.rs"
  fi
  R=$(cd "$SCR" && CARGO_TARGET_DIR="$SCR/target" cargo test --offline --lib 2>&1 | grep "^test result" | head -1)
  echo "CONFIRM: repository suite with the patch: $R"
  cleanup
fi
cd /verif
export VERIF_EVIDENCE_DIR=/verif/work/mutant_evidence   # never overwrite the committed evidence with a run on a changed tree
mkdir -p "$VERIF_EVIDENCE_DIR"
git -C /repo apply "$PATCH" || { echo "APPLY: !! patch does not apply to /repo"; exit 2; }
for ID in "$@"; do
  OUT=$(timeout 1500 ./check "$ID" quick 2>&1); RC=$?
  echo "CHECK $ID quick: exit=$RC $(echo "$OUT" | grep -E "^VIOLATION|TOOL-ERROR" | head -2 | tr '\n' ' ')"
  echo "$OUT" | grep -E '"why"' | head -1 | cut -c1-400
done
git -C /repo checkout -- . ; git -C /repo status --short | head -3
