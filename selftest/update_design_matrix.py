#!/usr/bin/env python3
"""Replace the seeded-change table of DESIGN.md section 14 with the output of matrix.py."""
import os, subprocess, sys
here = os.path.dirname(os.path.abspath(__file__))
design = os.path.join(here, "..", "DESIGN.md")
table = subprocess.run([sys.executable, os.path.join(here, "matrix.py")], stdout=subprocess.PIPE, text=True).stdout.strip().splitlines()
lines = open(design).read().splitlines()
start = next(i for i, l in enumerate(lines) if l.startswith("| seeded change | property |"))
end = start
while end < len(lines) and lines[end].startswith("|"):
    end += 1
lines[start:end] = table
open(design, "w").write("\n".join(lines) + "\n")
print("table rows:", len(table) - 2)
