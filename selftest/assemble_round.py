#!/usr/bin/env python3
"""Assemble seeded/C??-agent<N> from /tmp/mut<N>/<ID>/out and work/r<N>/official_<ID>.log (run once per round,
after selftest/try_mutant.sh has been run for every change of the round).  usage: assemble_round.py 5|6"""
import json, os, re, shutil, sys
ROUND = sys.argv[1]
ORIGIN = {
 "5": "independent sub-agent given only the property text and a scratch worktree (round 5: hard-to-detect changes, asked to be original)",
 "6": "independent sub-agent given only the property text and a scratch worktree (round 6: one ordinary-looking maintenance commit of an assigned kind -- optimisation, std-library rewrite, cache, integer-width clean-up, input friendliness, hardening, de-duplication, constants clean-up, API ergonomics, misguided bug fix -- that unintentionally breaks the property, preferably in a helper the property depends on)",
}[ROUND]
S5 = {
 "C01": ("`multiply_primes` as two partial products narrowed to u16: three aces in slots 0, 2 and 4 truncate (41^3 > 65535) and the hand ranks 0 (hands with three or four aces, 12-48 of their 120 slot orders)", True, ""),
 "C02": ("`Six` fast path 'slots 0..4 are a straight flush and the sixth card is below the first': the steel wheel plus the suited six, ace in slot 0 and six in slot 5, returns 10 instead of 9 (96 ordered hands, none of them in a sorted order)", False, "every slot order (720 / 5040) of every six- and seven-card hand whose best five are a straight flush, and of a seeded 1/2048 of the others"),
 "C03": ("`Seven` skips the final sort of the reported hand for royal flushes when a (mistyped) `is_ordered()` says the slots are already descending: the reported hand ends T J for 202 ordered inputs (descending with the last two slots exchanged)", False, "every slot order (5040) of every sampled seven-card hand whose best five are a straight flush"),
 "C04": ("`Seven` overrides `is_corrupt` with a structural check that does not tie the rank flag to the rank number: 624 non-card words (halves of two different cards) count as cards in seven-slot hands only", False, "words assembled from the fields of different cards in every slot of every size, and the 2^32 word sweep through one slot of every container size (quick: a seeded eighth per size)"),
 "C05": ("`Six` multiplies all six primes once in u32 and divides by the left-out prime: six aces of at least two suits overflow 41^6 and the ranking panics in overflow-checked builds only", True, ""),
 "C06": ("`Seven` sorts up front and stops at the first straight flush met: A-2-3-4-5-6 suited reports FiveHighStraightFlush instead of SixHigh / SevenHigh (184 seven-card hands, any slot order)", True, ""),
 "C07": ("`HandRankClass::Invalid` given discriminant 0: the Invalid class sorts before RoyalFlush, so sorting by class puts invalid ranks in front", False, "the position of the Invalid member of both enumerations made strict (every real value against four invalid ones, both ways; same in the trace specification)"),
 "C08": ("`Six::are_unique` through a 64-bit seen-mask with stride 12 instead of 13: ace of one suit and deuce of the next collide, 3.4% of valid six-card hands validate to 0 and the validated value changes under suit shifting", True, ""),
 "C09": ("`Seven` stops at the first straight flush when its slots are strictly descending words: A-6-5-4-3-2 suited in sorted order returns 10 instead of 9 (184 card sets, one slot order each)", True, "(the word-descending slot order added to C02/C03/C09 now catches it deterministically)"),
 "C10": ("`filter` rewritten as a structural check plus deck lookup whose slot subtraction underflows for spade-suited words with rank number 13-15: panics with overflow checks only (39 of the 2^32 words)", True, ""),
 "C11": ("`Five::sort_in_place` rotates a steel wheel to 5-4-3-2-A ('the ace plays low'); the copying `sort` stays correct (4 hands, any order)", False, "sorting every set of 2..6 real cards and a sixteenth of the seven-card sets"),
 "C12": ("`Seven::from_index` trims leading U+FEFF before splitting: a byte-order mark glued to the first token no longer makes it a non-card, a lone one no longer counts as a token (seven-card parser only)", False, "every Unicode scalar value in four placements (leading, glued to a token, between tokens, trailing) through each hand parser"),
 "C13": ("`is_straight_flush` gains an 'already laid out high to low' shortcut whose suit test is shifted with the rank: true for exactly the ordered hand 5S 4H 3D 2C AS (1 of 311,875,200 ordered hands)", True, ""),
 "C14": ("`from_binary_card` falls back to `filter(bc as u32)`: every 64-bit value whose low 32 bits spell a card word converts to that card", True, "(card words widened to 64 bits were added to C14 all the same)"),
 "C15": ("`BinaryCard::from_index` splits on ASCII whitespace only: cards separated by U+00A0, U+2003 ... are dropped or turn into junk tokens", True, ""),
 "C16": ("`Two::try_from(bits)` answers InvalidBinaryFormat instead of TooManyCards when all of at least eight set bits lie in bits 52..59: exactly the value 0x0FF0_0000_0000_0000", False, "every run of consecutive one bits (any width, any position) with a bit added or cleared, in C14/C15/C16"),
 "C17": ("`get_gap` walks an iterator and a `log::trace!` line between the two reads consumes the kicker: with the log level at Trace the gap is 0 for every hand, connectors and the score are wrong", False, "the overflow-checked replay runs with `log::set_max_level(Trace)`"),
 "C18": ("`Deck::get` addresses the deck as (index / 13) as u32 rows and index % 13 columns: indexes 13 * 2^32 * m + k return cards", False, "offsets 0..55 from every multiple 1..64 of 2^8 .. 2^56 as deck indexes"),
 "C19": ("`Seven::set_sixth` returns early when the word equals the current seventh slot (index confusion): the write is dropped", True, "(exhaustive short setter sequences over two-word pools were added all the same)"),
 "C20": ("`Three::sort_in_place` by key `-(c as i32)`: a quads-marked word (bit 31) sorts behind every other word", False, "C20 sorts hands of every size with every small pattern of marks through the containers (the change was already caught by ./check C11 quick)"),
}
S6 = {
 "C01": ("branch-free `find_in_products` over two overlapping 4096-wide windows with a fencepost at the pivot: the key PRODUCTS[4096] (K-K-K-Q-3, class 1695) is never found and ranks 0, also as the best five of six/seven cards", True, ""),
 "C02": ("`Six`/`Seven` rank their subsets on pre-split 16-bit half-words; the product key multiplies the first three primes in u16: three aces overflow (panic with overflow checks, wrong value without) for hands with three or more aces in some slot orders", True, ""),
 "C03": ("the best-of-permutations loops of `Six` and `Seven` merged into `Permutator::best_five`, which remembers the winning row by its index in the wrong slice: the reported hand comes from the row before the winning one", True, ""),
 "C04": ("trait default `is_corrupt` strips the pair/trips/quads flags before matching: flagged cards count as cards in hands of every size (364 words), validated ranking returns non-zero or panics", True, ""),
 "C05": ("`Five` ranking reads the flush test off the OR it already has through `suits & (suits - 1) == 0`: an all-blank hand underflows and panics with overflow checks only (also six/seven-slot hands with five or more blanks)", True, ""),
 "C06": ("a shared `checked_hand_rank_value` applies the 0-based `>= COUNT` idiom to 1-based values: the validated entry points map the legitimate value 7462 to 0 / Invalid (1020 five-card hands)", True, ""),
 "C07": ("hand-written `PartialEq` / `Hash` for `HandRank` make every invalid rank equal the default while `cmp` still orders them by value: equal ranks that do not compare Equal", True, ""),
 "C08": ("`Six` / `Seven` shift suits with an in-place rotate of the suit flags whose mask covers only the wrap term: clubs of rank 2..9 become non-card words, four shifts no longer restore the hand, validated values drop to 0", True, ""),
 "C09": ("a forgiving `playable()` prelude for `Six` / `Seven` (strip flags, blank non-cards, drop repeats) never keeps the last sorted element: the lowest card of a full hand is replaced by blank (19% / 22% of hands get a weaker value)", True, ""),
 "C10": ("the three character accessors routed through new enum helpers; `index_char` takes digits from the discriminant and `char::from_digit(10, 10)` is None: the rank character of the four tens is '_'", True, ""),
 "C11": ("all six sorts go through a shared branch-free network whose compare-exchange takes the sign of a wrapped difference: words more than 2^31 apart are mis-ordered (a quarter of all pairs; never real cards)", True, ""),
 "C12": ("`CardRank` helpers rewritten over the discriminant: `prime(BLANK)` becomes 2, so `create(BLANK, suit)` is the deuce of that suit and every token 'non-rank character + suit symbol' parses to a deuce", True, ""),
 "C13": ("`is_straight` de-duplicated with `Two::is_connector` through `is_connected()` (rank flags form one unbroken run, count not checked): pairs, two pair, trips, full houses and quads on consecutive ranks are straights (22,896 hands)", True, ""),
 "C14": ("`from_ckc` strips the multiples flags first ('a flagged card vanished from the set'): 364 flagged words convert to a card bit instead of the empty set", True, ""),
 "C15": ("`create` looks the card up in the deck by (suit row, rank column); a blank rank lands in the next row: tokens 'non-rank character + spade/heart/diamond symbol' become a king, so sets built from text contain cards that are not among the tokens", True, ""),
 "C16": ("`Two::new` sorts its two cards ('canonical order'): `Two::try_from(bits)` returns the cards by word order, not deck order (468 of 1326 two-card sets)", True, ""),
 "C17": ("`CardRank` discriminants renumbered to the Cactus Kev index; `chen_formula` still tests `top_rank < 12` ('below a queen'), now 'below an ace': K-Q, K-J, Q-J, Q-T get the connector bonus (128 ordered pairs)", True, ""),
 "C18": ("the preset starting-hand tables generated by a const fn scanning deck index pairs i < j: deck order is not 'higher card first' across suits, so 18 of 60 entries list the lower card first", True, ""),
 "C19": ("`Seven::new(two, five)` and `Six::from_1_and_2_and_3` chain their parts through a new intake helper that trims blank padding at both ends: leading blanks shift the whole container left", False, "both constructors of every size on every pattern of {blank, own word, 0xFFFFFFFF} per slot (the constructor tests used arrays whose first slot was never blank), also recorded for TLC in the C19 trace"),
 "C20": ("masks derived from field offsets with an inclusive `bit_span`; `RANK_FLAG_FILTER` becomes 0x3FFF0000 and swallows the PAIR bit: every rank accessor reads differently on pair-marked words (208 of 416 marked words)", True, ""),
}
S = {"5": S5, "6": S6}[ROUND]
for pid, (summary, before, added) in S.items():
    src = "/tmp/mut%s/%s/out" % (ROUND, pid)
    dst = "/verif/seeded/%s-agent%s" % (pid, ROUND)
    os.makedirs(dst, exist_ok=True)
    for f in ("patch.diff", "demo.rs", "notes.md"):
        shutil.copy(os.path.join(src, f), os.path.join(dst, f))
    log = open("/verif/work/r%s/official_%s.log" % (ROUND, pid)).read()
    lines = [l for l in log.splitlines() if l.startswith(("CONFIRM", "CHECK"))]
    checks = [l for l in lines if l.startswith("CHECK")]
    caught = [re.match(r"CHECK (C\d\d) quick: exit=1 VIOLATION", l) for l in checks]
    det = ["./check %s quick" % m.group(1) for m in caught if m]
    suite = [l for l in lines if "repository suite" in l]
    if before:
        hist = "caught by the check as it stood when the change arrived" + (" " + added if added else "")
    else:
        hist = "MISSED by the check as it stood when the change arrived (exit 0); caught since: " + added
    meta = {
        "property": pid,
        "origin": ORIGIN,
        "summary": summary,
        "needs_to_manifest": "see notes.md",
        "confirmed": {
            "demo_passes_on_unchanged_code": any("demo passes on the unchanged code" in l for l in lines),
            "demo_fails_with_patch": any("demo fails with the patch" in l for l in lines),
            "repository_suite_with_patch": suite[0] if suite else "",
        },
        "ran": "selftest/try_mutant.sh /tmp/mut%s/%s/out %s (after screening runs with selftest/try_isolated.sh)" % (ROUND, pid, pid),
        "results": checks,
        "detected_by": det,
        "history": hist,
    }
    json.dump(meta, open(os.path.join(dst, "meta.json"), "w"), indent=1)
    print(pid, det, meta["confirmed"])
