#!/bin/bash
# usage: selftest/try_benign.sh <patch.diff>
# A property-preserving refactor must not raise an alarm: applies the patch to /repo, runs every
# quick check (evidence redirected to a scratch directory), restores /repo.  Prints one line per check.
set -u
cd /verif
export VERIF_EVIDENCE_DIR=/verif/work/benign_evidence; mkdir -p "$VERIF_EVIDENCE_DIR"
git -C /repo apply "$1" || { echo "patch does not apply"; exit 2; }
for ID in C01 C02 C03 C04 C05 C06 C07 C08 C09 C10 C11 C12 C13 C14 C15 C16 C17 C18 C19 C20; do
  OUT=$(timeout 1500 ./check "$ID" quick 2>&1); RC=$?
  echo "BENIGN $ID quick: exit=$RC $(echo "$OUT" | grep -E "^VIOLATION|TOOL-ERROR" | head -2 | tr '\n' ' ') advisories=$(echo "$OUT" | grep -c '^ADVISORY')"
  [ $RC -ne 0 ] && echo "$OUT" | grep -E '"why"|REJECT|TOOL' | head -3 | cut -c1-600
done
git -C /repo checkout -- . ; git -C /repo status --short | head -3
