#!/bin/bash
# usage: selftest/try_isolated.sh <patch.diff> <label> <ID>...
# Evaluates a patch WITHOUT touching /repo: a scratch worktree of /repo HEAD gets the patch, a scratch copy of the
# harness is pointed at that worktree (path dependency), and ./check <ID> quick runs with work / evidence / replay
# directories under the scratch area.  Everything is removed afterwards.  For screening only: the seeded changes
# recorded under seeded/ were (also) run the prescribed way with selftest/try_mutant.sh.
set -u
PATCH="$(readlink -f "$1")"; LABEL="$2"; shift 2
S=/tmp/iso.$LABEL.$$
cleanup() { git -C /repo worktree remove --force "$S/wt" >/dev/null 2>&1; rm -rf "$S"; git -C /repo worktree prune; }
trap cleanup EXIT
mkdir -p "$S" && git -C /repo worktree add --detach "$S/wt" HEAD >/dev/null 2>&1 || { echo "cannot create worktree"; exit 2; }
git -C "$S/wt" apply "$PATCH" || { echo "ISO $LABEL: patch does not apply"; exit 2; }
mkdir -p "$S/harness" && cp -r /verif/harness/src /verif/harness/Cargo.toml /verif/harness/Cargo.lock /verif/harness/.cargo "$S/harness/"
sed -i "s#path = \"/repo\"#path = \"$S/wt\"#" "$S/harness/Cargo.toml"
export VERIF_HARNESS_DIR="$S/harness" VERIF_WORK_DIR="$S/work" VERIF_EVIDENCE_DIR="$S/evidence" VERIF_REPLAYS_DIR="$S/replays"
mkdir -p "$VERIF_WORK_DIR"
cd /verif
for ID in "$@"; do
  OUT=$(timeout 2400 ./check "$ID" quick 2>&1); RC=$?
  echo "ISO $LABEL $ID quick: exit=$RC $(echo "$OUT" | grep -E "^VIOLATION|TOOL-ERROR" | head -2 | tr '\n' ' ') advisories=$(echo "$OUT" | grep -c '^ADVISORY')"
  [ $RC -ne 0 ] && echo "$OUT" | grep -E '"why"|REJECT|TOOL|error' | head -4 | cut -c1-700
done
