#!/bin/bash
# Demonstrates that the trace specification is bound to what was recorded (DESIGN 5.4):
#  1. a good trace is accepted;  2. the same trace with one recorded field corrupted is rejected at that line;
#  3. the same trace with one event of a live object removed is rejected at the next event of that object.
set -u
cd /verif
W=/verif/work/binding.$$; mkdir -p $W
H=harness/target/release/ckc-verif-harness
run() { PROPERTY=ALL TRACE=$1 bin/tlcrun bind -Xmx4g -Dtlc2.tool.queue.IStateQueue=StateDeque -- -workers 1 -config CkcTrace.cfg CkcTrace.tla 2>&1 | grep -E "TRACE (ACCEPTED|REJECTED)" | head -1; }
$H trace C19 --gen gen --seed 3 --out $W/c19.ndjson >/dev/null
$H trace C02 --gen gen --seed 3 --out $W/c02.ndjson >/dev/null
echo "good C19 trace:            $(run $W/c19.ndjson)"
python3 - $W <<'PY'
import json,sys
w=sys.argv[1]
L=[json.loads(l) for l in open(w+'/c19.ndjson')]
# corrupt one post-state slot of the 40th setter event
k=[i for i,e in enumerate(L) if e['op']=='c_set'][40]
M=[dict(e) for e in L]; M[k]=json.loads(json.dumps(M[k])); M[k]['post'][0][1]^=1; M[k]['acc'][0][1]^=1; M[k]['iter'][0][1]^=1
open(w+'/c19_corrupt.ndjson','w').write("\n".join(json.dumps(e) for e in M)+"\n")
# remove one setter event
N=L[:k]+L[k+1:]
open(w+'/c19_removed.ndjson','w').write("\n".join(json.dumps(e) for e in N)+"\n")
print("corrupted / removed event index (1-based):",k+1)
L=[json.loads(l) for l in open(w+'/c02.ndjson')]
L[100]['value']+=1
open(w+'/c02_corrupt.ndjson','w').write("\n".join(json.dumps(e) for e in L)+"\n")
PY
echo "one post-state bit flipped: $(run $W/c19_corrupt.ndjson)"
echo "one setter event removed:   $(run $W/c19_removed.ndjson)"
echo "good C02 trace:             $(run $W/c02.ndjson)"
echo "one value + 1 (event 101):  $(run $W/c02_corrupt.ndjson)"
rm -rf $W
