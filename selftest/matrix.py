#!/usr/bin/env python3
"""Print the seeded-change x check matrix (markdown) from seeded/*/meta.json."""
import glob, json, os
rows = []
for d in sorted(glob.glob(os.path.join(os.path.dirname(__file__), "..", "seeded", "*"))):
    m = os.path.join(d, "meta.json")
    if not os.path.exists(m):
        continue
    j = json.load(open(m))
    rows.append((os.path.basename(d), j.get("property"), j.get("summary", ""), ", ".join(j.get("detected_by", [])) or "**missed**", j.get("history", "")))
print("| seeded change | property | what it does / what it needs to manifest | caught by | history |")
print("|---|---|---|---|---|")
for r in rows:
    print("| `%s` | %s | %s | %s | %s |" % r)
